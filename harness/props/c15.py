"""C15 — COPC queries return exactly the points the octree stores in the box and levels.

Model: coq/Model/Copc.v (extracted to bin/lasmodel_c15).  COPC files are BUILT in memory (LAS 1.4 header, point format
6/7/8, COPC info VLR first, LasZip VLR of harness/fake_lazrs, chunks in shuffled order with gaps, hierarchy split over
random pages, empty interior and leaf nodes, points on voxel faces).  Correspondence: CopcReader.query / spatial_query /
level_query on a BytesIO source against the model (same records, same order; same fetched ranges and chunk table;
LaspyException <-> Err ELaspy), the model being fed with what is really in the file's bytes (pages parsed back, chunks
decoded).  Search: brute-force oracle over the stored points with the half-step tolerance band, independent of the model;
malformed page references under a watchdog.  Round 4: "grid" files (stored points on adjacent grid steps of every axis)
and boxes whose bounds lie at / around grid steps in the binary64 sense (`gen_gridstep_box`): what tells rounding to the
nearest step from truncation / floor / ceiling of the box bounds.  Round 5: FLAT data sets (all points on one z / x / y, on
a line, at one location, a single point: the header's extent has no thickness there) and boxes WITHOUT thickness on 1..3
axes placed exactly on stored points (`gen_degenerate_box`), 2-D and 3-D; a Bounds object that cannot be built for a legal
box is a failing input of the query (sessions included).  Round 6: the hierarchy stored as a VLR in front of the points,
as an EVLR behind them (other EVLRs around it) or loose between the chunks, the pages in ANY order inside it (root page
first / last / in the middle, bytes that belong to no page between them); READER SESSIONS = several queries on ONE reader,
some of them aborted (malformed page reference; a transient fault of the source - OSError / HTTP 503 - at the n-th read
of the query: a hierarchy page or a chunk range; then the source is healthy again): every later query must give the
answer of a fresh reader (oracle + byte equality), a fault must surface as an exception, and the records returned by
EARLIER queries are kept alive (some overwritten by the caller) and compared again after every later query; the
correspondence runs such sessions on the model too (`reader_session`: outcome of every query AND the cached hierarchy
after it, CopcReader.root_page, also after an aborted query)."""
import io
import math
import os
import re
import signal
import struct
import tempfile
import threading
from fractions import Fraction

import numpy as np

from harness import common, fake_lazrs

fake_lazrs.install()

DRIVER = "c15"
ASSUMPTIONS = [
    "LAZ backend = harness/fake_lazrs (contract of C14: the compressed buffer is cut by the chunk table's sizes, each piece "
    "decoded with its count); a chunk-table entry (0 points, 0 bytes) — an empty COPC node — decodes to nothing "
    "(the stand-in rejects a 0-byte chunk, the harness drops such entries before delegating)",
    "cube bounds and the box/cube overlap test are exact in the model: generated octrees have dyadic centre / halfsize "
    "for which the binary64 computation of VoxelKey.bounds is exact; float rounding of cube bounds is not modelled",
    "the integer grid bounds are clip(rint(q)) of q = fl(fl(b - offset) / scale) computed by the harness with the same "
    "binary64 operations; the theorems use the unrounded quotient (C15_inside, C15_enclosing) or any q (C15_points)",
    "+-inf box bounds are given to the model as +-2^k beyond every finite quantity of the case (order-equivalent)",
    "math.log2 rounding is not modelled: resolutions are exact powers of two of the spacing or well away from them",
    "http sources are served in-process by a fake requests session that answers every range request with exactly the "
    "requested bytes (laspy's HttpRangeStream, fetcher threads and both strategies are the real ones; schedules and "
    "failing requests are property C16); level ranges with a step are only checked by the oracle (the model has step 1)",
    "transient faults of the source: the reads of a query are counted as calls of read / readinto of the file object (one per "
    "hierarchy page fetched, then one per byte query of the grouped chunks), the n-th raises OSError once; in the model "
    "(traverse_rd / query_rd) the fault fires before anything of that read is merged; faults of http sources (503 on the n-th "
    "range request) are judged by the oracle only (which worker gets the failing request: C16)",
    "the chunks of the nodes a query selects do not overlap in the file (`apart`, checked on every generated file): the "
    "hypothesis under which the byte queries ascend strictly (C15_queue_order, C15_any_source)",
]

I32_MIN, I32_MAX = -2 ** 31, 2 ** 31 - 1
WATCHDOG_S = 3


def _laspy():
    import laspy
    import laspy.copc as C
    return laspy, C


# ------------------------------------------------------------------------------------------------------
# backend proxy: drops (0 points, 0 bytes) table entries, records what the glue hands to the backend
# ------------------------------------------------------------------------------------------------------
class LazrsProxy:
    def __init__(self, real):
        self._real = real
        self.calls = []

    def __getattr__(self, name):
        return getattr(self._real, name)

    def decompress_points_with_chunk_table(self, compressed, record_data, out, chunk_table, selection=None):
        table = [(int(p), int(b)) for p, b in chunk_table]
        self.calls.append((bytes(compressed), table))
        kept = [(p, b) for p, b in table if not (p == 0 and b == 0)]
        return self._real.decompress_points_with_chunk_table(compressed, record_data, out, kept, selection)


class SpySource(io.BytesIO):
    """BytesIO that records (position, size) of every readinto"""

    def __init__(self, raw):
        super().__init__(raw)
        self.reads = []

    def readinto(self, b):
        self.reads.append((self.tell(), len(b)))
        return super().readinto(b)


class PlainSource:
    """a file-like object with read / seek / tell only (no readinto): the third local fetch path"""

    def __init__(self, raw):
        self._b = io.BytesIO(raw)

    def read(self, n=-1):
        return self._b.read(n)

    def seek(self, pos, whence=0):
        return self._b.seek(pos, whence)

    def tell(self):
        return self._b.tell()

    def close(self):
        self._b.close()


class TransientFault:
    """the n-th read operation (read / readinto) after arm(n) raises OSError, ONCE; afterwards the source is healthy again
    (a network file system, a removable medium, an fsspec object: the caller retries or goes on with other queries)"""

    def _init_fault(self):
        self.countdown = None
        self.fired = False

    def arm(self, n):
        self.countdown = n
        self.fired = False

    def disarm(self):
        self.countdown = None

    def _tick(self):
        if self.countdown is not None:
            if self.countdown <= 0:
                self.countdown = None
                self.fired = True
                raise OSError(5, "c15: transient read error of the source")
            self.countdown -= 1


class FlakyBytesIO(io.BytesIO, TransientFault):
    def __init__(self, raw):
        io.BytesIO.__init__(self, raw)
        self._init_fault()

    def read(self, n=-1):
        self._tick()
        return io.BytesIO.read(self, n)

    def readinto(self, b):
        self._tick()
        return io.BytesIO.readinto(self, b)


class FlakyPlain(PlainSource, TransientFault):
    def __init__(self, raw):
        PlainSource.__init__(self, raw)
        self._init_fault()

    def read(self, n=-1):
        self._tick()
        return PlainSource.read(self, n)


class HttpFaults(TransientFault):
    """the same for the in-process http server: the n-th range request after arm(n) is answered 503, once"""

    def __init__(self):
        self._init_fault()

    def tick(self):
        try:
            self._tick()
        except OSError:
            return True
        return False


# ---- an in-process HTTP server: laspy's real HttpRangeStream / HttpFetcherThread / both fetch strategies run on a fake
# ---- `requests` session that answers a range request with exactly the requested bytes (schedules and faults: C16)
class _FakeResponse:
    def __init__(self, status, content):
        self.status_code = status
        self.content = content

    def raise_for_status(self):
        if self.status_code >= 400:
            raise RuntimeError(f"HTTP status {self.status_code}")


class HttpWorld:
    def __init__(self):
        self.files = {}
        self.log = []
        self.lock = threading.Lock()
        self.faults = HttpFaults()

    def register(self, raw):
        url = f"http://c15.fake/{len(self.files)}.copc.laz"
        self.files[url] = raw
        return url


WORLD = HttpWorld()


class FakeSession:
    def get(self, url, headers=None, **kw):
        raw = WORLD.files[url]
        m = re.fullmatch(r"bytes=(\d+)-(\d+)", (headers or {}).get("Range", ""))
        if not m:
            return _FakeResponse(200, raw)
        a, b = int(m.group(1)), int(m.group(2))
        with WORLD.lock:
            WORLD.log.append((a, b - a + 1))
            if WORLD.faults.tick():
                return _FakeResponse(503, b"")
        if a >= len(raw):
            return _FakeResponse(416, b"")
        return _FakeResponse(206, raw[a:b + 1])

    def mount(self, *a, **k):
        pass

    def close(self):
        pass


def install_http():
    laspy, C = _laspy()
    if getattr(C.requests_retry_session, "_c15", False):
        return
    fn = lambda *a, **k: FakeSession()  # noqa: E731
    fn._c15 = True
    C.requests_retry_session = fn
    if C.requests is None:
        C.requests = object()


SOURCES = ["bytesio", "plain", "path", "with-path", "http-queue/1", "http-queue/2", "http-queue/5", "http-executor/1", "http-executor/3"]


def open_reader(raw, source="bytesio"):
    """a CopcReader on the file's bytes through one of the source kinds -> (reader, cleanup)"""
    laspy, C = _laspy()
    if source == "bytesio":
        return C.CopcReader(io.BytesIO(raw)), (lambda: None)
    if source == "spy":
        return C.CopcReader(SpySource(raw)), (lambda: None)
    if source == "plain":
        return C.CopcReader(PlainSource(raw)), (lambda: None)
    if source == "flaky-bytesio":
        return C.CopcReader(FlakyBytesIO(raw)), (lambda: None)
    if source == "flaky-plain":
        return C.CopcReader(FlakyPlain(raw)), (lambda: None)
    if source in ("path", "with-path"):     # with-path: the reader used as a context manager (`with CopcReader.open(p) as rd`)
        fd, path = tempfile.mkstemp(prefix="c15_", suffix=".copc.laz", dir="/var/tmp")
        with os.fdopen(fd, "wb") as fh:
            fh.write(raw)

        holder = []

        def cleanup():
            try:
                if holder and source == "with-path":
                    holder[0].__exit__(None, None, None)
                elif holder:
                    holder[0].source.close()
            finally:
                if os.path.exists(path):
                    os.unlink(path)
        try:
            rd = C.CopcReader.open(path)
            if source == "with-path":
                rd = rd.__enter__()
        except BaseException:
            cleanup()
            raise
        holder.append(rd)
        return rd, cleanup
    if source.startswith("http-"):
        install_http()
        strategy, n = source[5:].split("/")
        url = WORLD.register(raw)
        if strategy == "queue":     # the default strategy, through the public constructor
            return C.CopcReader.open(url, http_num_threads=int(n)), (lambda: None)
        return C.CopcReader(C.HttpRangeStream(url), http_num_threads=int(n), _http_strategy="executor"), (lambda: None)
    raise ValueError(source)


_PROXY = None


def proxy():
    global _PROXY
    laspy, C = _laspy()
    if _PROXY is None or C.lazrs is not _PROXY:
        real = C.lazrs._real if isinstance(C.lazrs, LazrsProxy) else C.lazrs
        _PROXY = LazrsProxy(real)
        C.lazrs = _PROXY
    return _PROXY


class Watchdog(Exception):
    pass


def with_watchdog(fn):
    def handler(signum, frame):
        raise Watchdog()
    old = signal.signal(signal.SIGALRM, handler)
    signal.alarm(WATCHDOG_S)
    try:
        return fn()
    finally:
        signal.alarm(0)
        signal.signal(signal.SIGALRM, old)


# ------------------------------------------------------------------------------------------------------
# building a COPC file
# ------------------------------------------------------------------------------------------------------
def child_key(k, d):
    l, x, y, z = k
    return (l + 1, 2 * x + (d & 1), 2 * y + ((d >> 1) & 1), 2 * z + ((d >> 2) & 1))


def gen_keys(rng, depth, budget, ok=None):
    """occupied keys: root + random descendants (parents always present); ok: predicate the keys must satisfy (flat data
    sets: only the voxels that meet the plane / line / point the data lie on)"""
    keys = [(0, 0, 0, 0)]
    frontier = [(0, 0, 0, 0)]
    while frontier and len(keys) < budget:
        k = frontier.pop(rng.randrange(len(frontier)))
        if k[0] >= depth:
            continue
        nch = rng.choice([0, 1, 1, 2, 2, 3, 8]) if k[0] > 0 else rng.choice([1, 2, 3, 8])
        dirs = list(range(8)) if ok is None else [d for d in range(8) if ok(child_key(k, d))]
        for d in rng.sample(dirs, min(nch, len(dirs))):
            c = child_key(k, d)
            keys.append(c)
            frontier.append(c)
            if len(keys) >= budget:
                break
    return keys


def cube_of(geo, k):
    """exact cube (Fractions) of key k: [(lo, hi)] * 3"""
    l, x, y, z = k
    side = Fraction(geo["side"]) / (2 ** l)
    return [(Fraction(geo["lo"][i]) + c * side, Fraction(geo["lo"][i]) + (c + 1) * side) for i, c in enumerate((x, y, z))]


def grid_range(lo, hi, scale, off):
    """(xmin, xmax): the int32 steps X with lo <= X*scale+off <= hi (exact); xmin > xmax when there is none"""
    s, o = Fraction(scale), Fraction(off)
    xmin = math.ceil((lo - o) / s)
    xmax = math.floor((hi - o) / s)
    return max(xmin, I32_MIN), min(xmax, I32_MAX)


def pick_coord(rng, lo, hi, scale, off, noisy=False):
    """an int32 X with lo <= X*scale+off <= hi (exact), biased to the faces; None when there is none.
    noisy: prefer a step whose real coordinate, divided back by the scale in binary64, does not land on the integer"""
    xmin, xmax = grid_range(lo, hi, scale, off)
    if xmin > xmax:
        return None
    if noisy:
        for _ in range(24):
            k = rng.randint(xmin, xmax)
            if step_is_noisy(k, scale, off):
                return k
    r = rng.random()
    if r < 0.2:
        return xmin
    if r < 0.4:
        return xmax
    return rng.randint(xmin, xmax)


# ---- real coordinates AT and AROUND the steps of the integer grid, in the binary64 sense ------------------------------
def step_to_real(k, fr, scale, off, route):
    """the binary64 number a caller gets for (k + fr) steps: computed in binary64, correctly rounded from the exact
    value, or typed as a decimal literal (0.29 for step 29 at scale 0.01)"""
    if route == "float":
        with np.errstate(all="ignore"):
            return float((np.float64(k) + np.float64(fr)) * np.float64(scale) + np.float64(off))
    if route == "dec":
        from decimal import Decimal, localcontext
        with localcontext() as c:
            c.prec = 60
            return float((Decimal(k) + Decimal(repr(float(fr)))) * Decimal(repr(float(scale))) + Decimal(repr(float(off))))
    return float((Fraction(k) + Fraction(fr)) * Fraction(scale) + Fraction(off))


def grid_quotient(b, scale, off):
    """fl(fl(b - off) / scale): where binary64 arithmetic puts the real coordinate b on the grid"""
    with np.errstate(all="ignore"):
        return float((np.float64(b) - np.float64(off)) / np.float64(scale))


def step_is_noisy(k, scale, off):
    """some natural way of writing step k as a real coordinate does not divide back to the integer k exactly"""
    for route in ("dec", "float"):
        q = grid_quotient(step_to_real(k, 0.0, scale, off, route), scale, off)
        if math.isfinite(q) and q != k and abs(q - k) < 1e-6:
            return True
    return False


def gen_geometry(rng):
    mode = rng.choice(["small", "small", "mid", "mid", "edge", "fine"])
    if mode == "edge":      # points up to the end of the int32 grid on x
        half = 64.0
        center = [float(2 ** 31 - 64), rng.randrange(-100, 100) / 4.0, rng.randrange(-100, 100) / 4.0]
        scales = [1.0, rng.choice([0.5, 0.25, 0.01]), rng.choice([1.0, 0.125, 0.01])]
        offsets = [0.0, rng.choice([0.0, center[1]]), 0.0]
    elif mode == "fine":
        half = rng.choice([0.25, 0.5, 1.0, 1.5])
        center = [rng.randrange(-64, 64) / 16.0 for _ in range(3)]
        scales = [rng.choice([2.0 ** -7, 2.0 ** -5, 0.001, 0.01]) for _ in range(3)]
        offsets = [rng.choice([0.0, c, rng.randrange(-8, 8) / 4.0]) for c in center]
    else:
        half = rng.choice([2.0, 4.0, 8.0, 12.0, 16.0, 40.0, 128.0]) if mode == "small" else rng.choice([512.0, 1000.0, 4096.0, 768.0])
        center = [rng.randrange(-4000, 4000) / 8.0 for _ in range(3)]
        scales = [rng.choice([0.01, 0.001, 0.1, 0.5, 1.0, 0.125, 2.0 ** -7, 0.25]) for _ in range(3)]
        offsets = [rng.choice([0.0, c, float(round(c)), rng.randrange(-100, 100) / 10.0]) for c in center]
    center = np.array(center, dtype=np.float64)
    lo = center - half
    hi = center + half
    assert all(Fraction(float(hi[i])) - Fraction(float(lo[i])) == 2 * Fraction(half) for i in range(3)), "inexact root cube"
    return {"center": [float(c) for c in center], "half": float(half), "lo": [float(v) for v in lo],
            "side": float(hi[0] - lo[0]), "scales": scales, "offsets": offsets, "mode": mode}


def make_records(laspy, fmt, pts, rng):
    """pts: [(X, Y, Z, tag)] -> list of record bytes"""
    pf = laspy.PointFormat(fmt)
    rec = laspy.PackedPointRecord.zeros(len(pts), pf)
    if pts:
        a = np.array(pts, dtype=np.int64)
        rec["X"] = a[:, 0]
        rec["Y"] = a[:, 1]
        rec["Z"] = a[:, 2]
        rec["intensity"] = a[:, 3] & 0xFFFF
        rec["point_source_id"] = (a[:, 3] >> 16) & 0xFFFF
        rec["gps_time"] = a[:, 3].astype(np.float64)
        rec["user_data"] = np.array([rng.randrange(256) for _ in pts], dtype=np.uint8)
        if fmt >= 7:
            rec["red"] = np.array([rng.randrange(65536) for _ in pts], dtype=np.uint16)
    raw = rec.array.tobytes()
    sz = pf.size
    return [raw[i * sz:(i + 1) * sz] for i in range(len(pts))]


def entry_bytes(k, off, size, cnt):
    return struct.pack("<iiiiQii", k[0], k[1], k[2], k[3], off, size, cnt)


def shift_geometry(geo, dz_sides):
    """the same root cube moved by a whole number of cube sides along z (a tile above / below): same x / y window"""
    g = dict(geo)
    center = list(geo["center"])
    center[2] = center[2] + dz_sides * geo["side"]
    lo = list(geo["lo"])
    lo[2] = center[2] - geo["half"]
    assert Fraction(lo[2]) == Fraction(center[2]) - Fraction(geo["half"]) and \
        Fraction(center[2]) == Fraction(geo["center"][2]) + dz_sides * Fraction(geo["side"]), "inexact shifted cube"
    g["center"], g["lo"] = center, lo
    return g


EXACT_SCALES = [1.0, 0.5, 0.25, 0.125, 2.0 ** -5, 2.0 ** -7]


def flat_setup(rng, geo, axes):
    """a FLAT data set: on every axis of `axes` all the points have ONE coordinate (a horizontal plane, a profile, a line, a
    single location).  -> (geometry, {axis: grid step}); on the flat axes mostly a scale / offset for which the real
    coordinate is exact in binary64, so that the header's min and max of the axis are one number (what a writer computes
    for such a file); the step is anywhere in the root cube, or ON the face between two voxels of level 1..3"""
    geo = dict(geo, scales=list(geo["scales"]), offsets=list(geo["offsets"]))
    steps = {}
    for i in axes:
        if not (geo["mode"] == "edge" and i == 0) and rng.random() < 0.75:
            geo["scales"][i] = rng.choice(EXACT_SCALES)
            geo["offsets"][i] = rng.choice([0.0, geo["center"][i], float(round(geo["center"][i]))])
        lo, side = Fraction(geo["lo"][i]), Fraction(geo["side"])
        s, o = Fraction(geo["scales"][i]), Fraction(geo["offsets"][i])
        faces = []
        for m in (1, 2, 3):
            for j in range(2 ** m + 1):
                q = (lo + side * j / 2 ** m - o) / s
                if q.denominator == 1 and I32_MIN <= q <= I32_MAX:
                    faces.append(int(q))
        step = rng.choice(faces) if faces and rng.random() < 0.4 else pick_coord(rng, lo, lo + side, geo["scales"][i], geo["offsets"][i])
        if step is not None:
            steps[i] = step
    return geo, steps


HOSTS = ["loose", "vlr", "vlr", "evlr", "evlr"]
PAGE_ORDERS = ["shuffled", "shuffled", "root-first", "root-last", "root-middle"]


def build_file(rng, malformed=None, depth=None, budget=None, geo=None, grid=None, flat=None, host=None, page_order=None):
    """returns dict(raw, geo, fmt, nodes={key: [tags]}, points={tag: (X,Y,Z,rec_bytes,key)}, spacing, hdr_z, label).
    flat: axes on which all the points share one coordinate (all three: every point at one location)"""
    laspy, C = _laspy()
    fmt = rng.choice([6, 7, 8])
    geo = geo if geo is not None else gen_geometry(rng)
    depth = depth if depth is not None else rng.choice([0, 1, 2, 2, 3, 3, 4, 5])
    budget = budget if budget is not None else rng.choice([1, 3, 8, 14, 25, 40])
    flat_steps = {}
    if flat:
        geo, flat_steps = flat_setup(rng, geo, sorted(flat))
    if flat_steps:
        where = {i: Fraction(geo["scales"][i]) * v + Fraction(geo["offsets"][i]) for i, v in flat_steps.items()}

        def meets(k):
            cube = cube_of(geo, k)
            return all(cube[i][0] <= w <= cube[i][1] for i, w in where.items())
        keys = gen_keys(rng, depth, budget, ok=meets)
    else:
        keys = gen_keys(rng, depth, budget)
    while malformed and (bad_key(keys) is None or bad_key2(keys) is None):
        keys = gen_keys(rng, depth, min(budget, 6))
    # ---- points
    node_pts = {}
    all_pts = []
    centres = []        # tags of the points that have neighbours on the adjacent grid steps
    if grid is None:
        grid = (not malformed) and rng.random() < 0.3
    for k in keys:
        n = rng.choice([0, 0, 1, 2, 3, 5])
        if k == (0, 0, 0, 0) and (grid or flat_steps or rng.random() < 0.5):
            n = max(n, 1)
        cube = cube_of(geo, k)
        ranges = [grid_range(cube[i][0], cube[i][1], geo["scales"][i], geo["offsets"][i]) for i in range(3)]
        tags = []
        for j in range(n):
            cross = grid and (j == 0 or rng.random() < 0.25)
            c = [flat_steps[i] if i in flat_steps else
                 pick_coord(rng, cube[i][0], cube[i][1], geo["scales"][i], geo["offsets"][i],
                            noisy=cross and rng.random() < 0.6) for i in range(3)]
            if None in c:
                continue
            tag = len(all_pts)
            all_pts.append((c[0], c[1], c[2], tag))
            tags.append(tag)
            if cross:
                # stored points exactly on the neighbouring steps (k - 1, k + 1, sometimes k +- 2) of every axis, in the
                # same node (and inside its cube): what a box bound that lands one step off lets in or drops
                centres.append(tag)
                for i in range(3):
                    if i in flat_steps:
                        continue
                    for d in (-1, 1) + ((-2, 2) if rng.random() < 0.3 else ()):
                        v = c[i] + d
                        if ranges[i][0] <= v <= ranges[i][1]:
                            nb = list(c)
                            nb[i] = v
                            t2 = len(all_pts)
                            all_pts.append((nb[0], nb[1], nb[2], t2))
                            tags.append(t2)
        rng.shuffle(tags)
        node_pts[k] = tags
    recs = make_records(laspy, fmt, all_pts, rng)
    item_size = laspy.PointFormat(fmt).size
    # ---- pages: every key either stays in its parent's page or opens a new one
    page_of = {(0, 0, 0, 0): 0}
    pages = {0: [(0, 0, 0, 0)]}         # page id -> keys described there
    refs = {}               # page id -> (parent page id, key) that references it
    for k in keys[1:]:
        parent = (k[0] - 1, k[1] >> 1, k[2] >> 1, k[3] >> 1)
        if rng.random() < 0.3:
            pid = len(pages)
            pages[pid] = [k]
            refs[pid] = (page_of[parent], k)
            page_of[k] = pid
        else:
            page_of[k] = page_of[parent]
            pages[page_of[k]].append(k)
    page_entries = {pid: len(ks) + sum(1 for r in refs.values() if r[0] == pid) for pid, ks in pages.items()}
    # ---- items to lay out: chunks and pages
    items = []
    chunk_of = {}
    for k in keys:
        tags = node_pts[k]
        if tags or rng.random() < 0.4:     # empty nodes: with a real empty chunk, or (offset 0, size 0)
            body = fake_lazrs.encode_chunk(b"".join(recs[t] for t in tags), item_size)
            items.append(("chunk", k, body))
        else:
            chunk_of[k] = (0, 0)
    extra_pages = []
    if malformed:
        extra_pages = malformed_pages(malformed)
    page_items = [("page", pid, 32 * page_entries[pid] + (32 if malformed and pid == 0 else 0)) for pid in pages]
    page_items += [("xpage", name, 32 * n_entries) for name, n_entries in extra_pages]
    # where the hierarchy is stored: "loose" = pages anywhere between the chunks (only the offsets of the info VLR and of
    # the references find them); "vlr" = ONE VLR (copc, 1000) among the header's VLRs, in front of the points; "evlr" = ONE
    # EVLR (copc, 1000) behind the points (with or without other EVLRs around it).  Inside the (E)VLR the pages lie in ANY
    # order: the root page first, last or in the middle - hierarchy_root_offset says where it is
    host = host if host is not None else rng.choice(HOSTS)
    rng.shuffle(page_items)
    order = page_order if page_order is not None else rng.choice(PAGE_ORDERS)
    if order != "shuffled" and len(page_items) > 1:
        root_item = [it for it in page_items if it[:2] == ("page", 0)][0]
        page_items.remove(root_item)
        at = {"root-first": 0, "root-last": len(page_items), "root-middle": max(1, len(page_items) // 2)}[order]
        page_items.insert(at, root_item)
    root_at = [it[:2] for it in page_items].index(("page", 0))
    root_where = "only" if len(page_items) == 1 else ("first" if root_at == 0 else ("last" if root_at == len(page_items) - 1 else "middle"))
    hier_rel = {}
    hier_len = 0
    if host == "loose":
        items += page_items
        root_where = "anywhere"
    else:
        for it in page_items:
            if rng.random() < 0.15:
                hier_len += rng.choice([32, 8, 5])      # bytes of the payload that belong to no page
            hier_rel[it[:2]] = hier_len
            hier_len += it[2]
        if rng.random() < 0.15:
            hier_len += rng.choice([32, 4])
    rng.shuffle(items)
    # ---- header
    hdr = laspy.LasHeader(version="1.4", point_format=fmt)
    hdr.scales = np.array(geo["scales"])
    hdr.offsets = np.array(geo["offsets"])
    hdr.are_points_compressed = True
    vlr = fake_lazrs.LazVlr.new_for_compression(fmt, 0, use_variable_size_chunks=True)
    info_placeholder = b"\0" * 160
    hdr.vlrs.append(laspy.VLR(user_id="copc", record_id=1, description="COPC info", record_data=info_placeholder))
    hdr.vlrs.append(laspy.VLR(user_id="laszip encoded", record_id=22204, description="fake lazrs", record_data=bytes(vlr.record_data())))
    hier_vlr = None
    if host == "vlr":
        placeholder = bytes(rng.randrange(256) for _ in range(hier_len))
        hier_vlr = laspy.VLR(user_id="copc", record_id=1000, description="COPC hierarchy", record_data=placeholder)
        hdr.vlrs.insert(rng.choice([1, 2]), hier_vlr)
    if all_pts:
        real = [[Fraction(geo["scales"][i]) * p[i] + Fraction(geo["offsets"][i]) for p in all_pts] for i in range(3)]
        mins = [float(min(r)) for r in real]
        maxs = [float(max(r)) for r in real]
        # binary64 bounds that contain every point (rounded outwards)
        mins = [m if Fraction(m) <= min(r) else np.nextafter(m, -np.inf) for m, r in zip(mins, real)]
        maxs = [m if Fraction(m) >= max(r) else np.nextafter(m, np.inf) for m, r in zip(maxs, real)]
    else:
        mins = [geo["lo"][i] for i in range(3)]
        maxs = [geo["lo"][i] + geo["side"] for i in range(3)]
    hdr.mins = np.array(mins, dtype=np.float64)
    hdr.maxs = np.array(maxs, dtype=np.float64)
    hdr.point_count = len(all_pts)
    tmp = io.BytesIO()
    hdr.write_to(tmp)
    start = tmp.tell()
    hier_start = None
    if host == "vlr":
        hier_start = tmp.getvalue().find(placeholder)
        assert hier_start > 0 and tmp.getvalue().count(placeholder) == 1 and hier_start + hier_len <= start
    # ---- offsets
    pos = start + rng.choice([0, 8, 13])
    page_pos = {}
    xpage_pos = {}
    for it in items:
        if rng.random() < 0.45:
            pos += rng.choice([1, 3, 7, 16, 40])
        if it[0] == "chunk":
            chunk_of[it[1]] = (pos, len(it[2]))
            pos += len(it[2])
        elif it[0] == "page":
            page_pos[it[1]] = (pos, it[2])
            pos += it[2]
        else:
            xpage_pos[it[1]] = (pos, it[2])
            pos += it[2]
    evlrs = []          # (position, header bytes) of the EVLRs behind the points
    if host == "evlr":
        pos += rng.choice([0, 0, 9])
        first = pos
        def evlr_head(user, rid, n, desc):
            return struct.pack("<H16sHQ32s", 0, user, rid, n, desc)
        if rng.random() < 0.3:      # another EVLR in front of the hierarchy
            n = rng.choice([0, 7, 40])
            evlrs.append((pos, evlr_head(b"c15", 7, n, b"something else")))
            pos += 60 + n
        evlrs.append((pos, evlr_head(b"copc", 1000, hier_len, b"COPC hierarchy")))
        hier_start = pos + 60
        pos = hier_start + hier_len
        if rng.random() < 0.3:      # and / or behind it
            n = rng.choice([0, 3, 64])
            evlrs.append((pos, evlr_head(b"c15", 8, n, b"something else")))
            pos += 60 + n
        hdr.start_of_first_evlr = first
        hdr.number_of_evlrs = len(evlrs)
    if host != "loose":
        for it in page_items:
            (page_pos if it[0] == "page" else xpage_pos)[it[1]] = (hier_start + hier_rel[it[:2]], it[2])
    total = pos + (rng.choice([0, 5]) if host != "evlr" else 0)
    buf = bytearray(rng.randrange(256) for _ in range(total))
    payload = bytearray(rng.randrange(256) for _ in range(hier_len))     # vlr host: the pages go into the VLR's payload

    def put(o, body):
        if host == "vlr":
            payload[o - hier_start:o - hier_start + len(body)] = body
        else:
            buf[o:o + len(body)] = body
    # ---- serialise
    for it in items:
        if it[0] == "chunk":
            o, s = chunk_of[it[1]]
            buf[o:o + s] = it[2]
    for o, head in evlrs:
        buf[o:o + 60] = head
    for pid, ks in pages.items():
        ents = [(k, chunk_of[k][0], chunk_of[k][1], len(node_pts[k])) for k in ks]
        ents += [(r[1], page_pos[cp][0], page_pos[cp][1], -1) for cp, r in refs.items() if r[0] == pid]
        if malformed and pid == 0:
            ents.append(malformed_entry(malformed, keys, xpage_pos, page_pos))
        rng.shuffle(ents)
        o, s = page_pos[pid]
        body = b"".join(entry_bytes(*e) for e in ents)
        assert len(body) == s
        put(o, body)
    if malformed:
        for name, body in malformed_bodies(malformed, keys, xpage_pos, page_pos).items():
            o, s = xpage_pos[name]
            assert len(body) == s, (name, len(body), s)
            put(o, body)
    if hier_vlr is not None:
        hier_vlr.record_data = bytes(payload)
    spacing = rng.choice([geo["side"] / 4, geo["side"] / 128, 8.0, 1.0, 0.3, 10.0, 2.5])
    info = struct.pack("<dddddQQdd", geo["center"][0], geo["center"][1], geo["center"][2], geo["half"], spacing,
                       page_pos[0][0], page_pos[0][1], 0.0, float(max(1, len(all_pts))))
    info = info + b"\0" * (160 - len(info))
    hdr.vlrs[0].record_data = info
    out = io.BytesIO()
    hdr.write_to(out)
    assert out.tell() == start
    buf[:start] = out.getvalue()
    points = {p[3]: (p[0], p[1], p[2], recs[p[3]]) for p in all_pts}
    flat_axes = [i for i in range(3) if all_pts and float(hdr.mins[i]) == float(hdr.maxs[i])]
    label = f"fmt{fmt}/{geo['mode']}/depth{depth}/nodes{len(keys)}/pages{len(pages)}/pts{len(all_pts)}" + ("/grid" if centres else "") \
        + ("/flat-" + "".join("xyz"[i] for i in sorted(flat_steps)) if flat_steps else "") + (f"/{malformed}" if malformed else "") \
        + f"/hier-{host}/root-page-{root_where}"
    return {"raw": bytes(buf), "geo": geo, "fmt": fmt, "nodes": node_pts, "points": points, "spacing": spacing,
            "hdr_z": (float(hdr.mins[2]), float(hdr.maxs[2])), "hdr_mins": [float(v) for v in hdr.mins],
            "hdr_maxs": [float(v) for v in hdr.maxs], "label": label, "item_size": item_size,
            "root_ref": page_pos[0], "malformed": malformed, "keys": keys, "centres": centres,
            "flat": sorted(flat_steps), "hdr_flat": flat_axes, "host": host, "root_where": root_where, "npages": len(page_items)}


# ---- malformed hierarchies: one extra entry in the root page for a key that does not exist otherwise ------------------
def bad_key(keys):
    """a child of the root that is not occupied (so the rest of the tree is untouched); None when all 8 exist"""
    for d in range(8):
        c = child_key((0, 0, 0, 0), d)
        if c not in keys:
            return c
    return None


def bad_key2(keys):
    c1 = bad_key(keys)
    for d in range(8):
        c = child_key((0, 0, 0, 0), d)
        if c not in keys and c != c1:
            return c
    return None


MALFORMED = ["self", "missing", "chain", "eof", "mutual", "odd"]


def malformed_pages(kind):
    return {"self": [("A", 1)], "missing": [("A", 1)], "chain": [("A", 1), ("B", 1)], "eof": [], "odd": [("A", 2)],
            "mutual": [("A", 2), ("B", 2)]}[kind]


def bad_pair(kind, keys):
    """(key referenced from the root page, other key); children are popped from the last to the first, so for the
    mutual case the root page references the key that is popped FIRST (the one with the higher direction)"""
    a, b = bad_key(keys), bad_key2(keys)
    return (b, a) if kind == "mutual" else (a, b)


def malformed_entry(kind, keys, xp, pp):
    k, _ = bad_pair(kind, keys)
    if kind == "self":          # the root page's entry points to the root page itself
        return (k, pp[0][0], pp[0][1], -1)
    if kind == "eof":           # a reference beyond the end of the file
        return (k, 10 ** 9, 64, -1)
    if kind == "odd":           # the size cuts the entry that would describe the key
        return (k, xp["A"][0], 40, -1)
    return (k, xp["A"][0], xp["A"][1], -1)


def malformed_bodies(kind, keys, xp, pp):
    k, k2 = bad_pair(kind, keys)
    if kind == "self":
        return {"A": entry_bytes(k2, 0, 0, 0)}
    if kind == "missing":       # the page does not hold the key
        return {"A": entry_bytes(k2, 0, 0, 0)}
    if kind == "chain":         # the page holds the key, again as a reference to a page that describes it
        return {"A": entry_bytes(k, xp["B"][0], xp["B"][1], -1), "B": entry_bytes(k, 0, 0, 0)}
    if kind == "odd":
        return {"A": entry_bytes(k2, 0, 0, 0) + entry_bytes(k, 0, 0, 0)}
    if kind == "mutual":        # two pages that reset each other's key (loops for ever without the merge rule)
        return {"A": entry_bytes(k, 0, 0, 0) + entry_bytes(k2, xp["B"][0], xp["B"][1], -1),
                "B": entry_bytes(k2, 0, 0, 0) + entry_bytes(k, xp["A"][0], xp["A"][1], -1)}
    return {}


# ------------------------------------------------------------------------------------------------------
# reading the file back for the model: pages as they are in the bytes, chunks as they decode
# ------------------------------------------------------------------------------------------------------
def parse_page(raw, off, size):
    data = raw[off:off + size] if off < len(raw) else b""
    ents = []
    for i in range(len(data) // 32):
        l, x, y, z, o, s, c = struct.unpack("<iiiiQii", data[32 * i:32 * i + 32])
        ents.append(((l, x, y, z), o, s, c))
    return ents


def file_model(f):
    """(tree token, pts token, tag->record bytes) from the file's bytes"""
    raw = f["raw"]
    root = parse_page(raw, *f["root_ref"])
    pages = {}
    todo = [(e[1], e[2]) for e in root if e[3] == -1]
    while todo:
        ref = todo.pop()
        if ref in pages:
            continue
        pages[ref] = parse_page(raw, *ref)
        todo += [(e[1], e[2]) for e in pages[ref] if e[3] == -1]
    def ents_tok(es):
        return ",".join(f"{k[0]}.{k[1]}.{k[2]}.{k[3]}.{o}.{s}.{c}" for k, o, s, c in es) if es else "-"
    tree = ";".join(["root=" + ents_tok(root)] + [f"{o}:{s}=" + ents_tok(es) for (o, s), es in pages.items()])
    chunks = {}
    for es in [root] + list(pages.values()):
        for k, o, s, c in es:
            if c > 0 and (o, s, c) not in chunks:
                try:
                    plain = fake_lazrs.decode_chunk(raw[o:o + s], f["item_size"], c)
                except Exception:
                    continue
                sz = f["item_size"]
                pts = []
                for i in range(c):
                    r = plain[i * sz:(i + 1) * sz]
                    X, Y, Z, inten = struct.unpack_from("<iiiH", r, 0)
                    psid = struct.unpack_from("<H", r, 20)[0]
                    pts.append((X, Y, Z, inten | (psid << 16)))
                chunks[(o, s, c)] = pts
    ptok = ";".join(f"{o}.{s}.{c}=" + ",".join(f"{p[0]}.{p[1]}.{p[2]}.{p[3]}" for p in ps) for (o, s, c), ps in chunks.items()) or "-"
    return tree, ptok


# ------------------------------------------------------------------------------------------------------
# queries
# ------------------------------------------------------------------------------------------------------
# fractions of a grid step a box bound is placed at, relative to a step k next to stored points: on the step, a hair
# off it (the binary64 quotient is then not an integer), around the half step (the rounding decision; within 1e-6 of
# the half step the property leaves the answer free), and most of a step away (where truncation, floor, ceiling and
# rounding to nearest all part)
GRID_FRACS = [0.0, 0.0, 0.0, 1e-13, -1e-13, 1e-9, -1e-9, 1e-4, -1e-4, 0.25, -0.25, 0.3, -0.3, 0.347, -0.403, 0.49, -0.49,
              0.499999, -0.499999, 0.5, -0.5, 0.50001, -0.50001, 0.51, -0.51, 0.7, -0.7, 0.75, -0.75, 0.9, -0.9,
              0.999, -0.999, 0.999999999, -0.999999999]
_GRID_STATS = {}


def grid_bound(rng, k, scale, off):
    """a binary64 bound at / around step k: (k + fr) steps written in one of three ways, moved by 0..2 ulps"""
    fr = rng.choice(GRID_FRACS)
    route = rng.choice(["exact", "float", "dec"])
    b = step_to_real(k, fr, scale, off, route)
    n = rng.choice([0, 0, 0, 0, 1, -1, 2, -2])
    for _ in range(abs(n)):
        b = math.nextafter(b, math.inf if n > 0 else -math.inf)
    q = grid_quotient(b, scale, off)
    cls = "fr=0" if fr == 0 else ("|fr|<1e-3" if abs(fr) < 1e-3 else ("|fr|<0.5" if abs(fr) < 0.5 else
                                                                      ("|fr|~0.5" if abs(fr) < 0.5001 else "|fr|>0.5")))
    _GRID_STATS["grid bound " + cls] = _GRID_STATS.get("grid bound " + cls, 0) + 1
    if math.isfinite(q) and q != math.floor(q):
        key = "grid bound: quotient just off an integer" if abs(q - round(q)) < 1e-6 else "grid bound: quotient fractional"
        _GRID_STATS[key] = _GRID_STATS.get(key, 0) + 1
        if math.trunc(q) != round(q):
            _GRID_STATS["grid bound: trunc != nearest"] = _GRID_STATS.get("grid bound: trunc != nearest", 0) + 1
    _GRID_STATS["grid bound " + ("negative" if q < 0 else "non-negative") + " step"] = \
        _GRID_STATS.get("grid bound " + ("negative" if q < 0 else "non-negative") + " step", 0) + 1
    return b


def gen_gridstep_box(rng, f, dims):
    """every bound of every axis independently: wide, or AT / AROUND a grid step next to a stored point that has
    neighbours on the adjacent steps (k - 1, k, k + 1 of that point's coordinate, plus a fraction of a step)"""
    geo = f["geo"]
    pts = f["points"]
    centres = f.get("centres") or list(pts)
    p = pts[rng.choice(centres)]
    q = pts[rng.choice(centres)] if rng.random() < 0.5 else pts[rng.choice(list(pts))]
    sc, of = geo["scales"], geo["offsets"]
    lo = geo["lo"]
    hi = [l + geo["side"] for l in lo]
    mins, maxs = [], []
    anchored = 0
    modes = [[rng.choice(["p", "p", "q", "wide", "wide"]) for _side in range(2)] for _i in range(3)]
    if all(m == "wide" for ax in modes[:dims] for m in ax):
        modes[rng.randrange(dims)][rng.randrange(2)] = "p"
    for i in range(3):
        pair = []
        for side, m in enumerate(modes[i]):
            if m == "wide":
                far = rng.choice([1.0, geo["side"], 1e6, 1e30, math.inf])
                pair.append(lo[i] - far if side == 0 else hi[i] + far)
            else:
                src = p if m == "p" else q
                k = src[i] + rng.choice([-1, 0, 0, 0, 1, 1, 2, -2])
                pair.append(grid_bound(rng, k, sc[i], of[i]))
                anchored += 1
        if pair[0] > pair[1]:
            pair.reverse()
        mins.append(pair[0])
        maxs.append(pair[1])
    return [float(v) for v in mins[:dims]], [float(v) for v in maxs[:dims]]


def gen_degenerate_box(rng, f, dims):
    """a box WITHOUT thickness along 1 .. dims of its axes, placed exactly on a stored point (a profile plane x = c, a
    horizontal slice z = c, a line, the point itself): a legal closed box that selects the points lying on it.  Along the
    other axes: a few grid steps around the point (also none), up to another stored point, the root cube, far beyond it"""
    geo = f["geo"]
    pts = f["points"]
    sc, of = geo["scales"], geo["offsets"]
    lo = geo["lo"]
    hi = [l + geo["side"] for l in lo]
    centres = f.get("centres") or list(pts)
    p = pts[rng.choice(centres if rng.random() < 0.5 else list(pts))]
    q = pts[rng.choice(list(pts))]
    thin = set(rng.sample(range(dims), min(dims, rng.choice([1, 1, 2, 3]))))
    mins, maxs = [], []
    for i in range(3):
        here = step_to_real(p[i], 0.0, sc[i], of[i], rng.choice(["exact", "exact", "float", "dec"]))
        if i in thin:
            a = b = here
        else:
            m = rng.choice(["steps", "steps", "q", "cube", "far"])
            if m == "steps":
                a = step_to_real(p[i] - rng.choice([0, 1, 3, 50]), 0.0, sc[i], of[i], "exact")
                b = step_to_real(p[i] + rng.choice([0, 1, 3, 50]), 0.0, sc[i], of[i], "exact")
            elif m == "q":
                a, b = here, step_to_real(q[i], 0.0, sc[i], of[i], "exact")
            elif m == "cube":
                a, b = lo[i], hi[i]
            else:
                far = rng.choice([1.0, 1e6, 1e30, math.inf])
                a, b = lo[i] - far, hi[i] + far
        mins.append(min(a, b))
        maxs.append(max(a, b))
    key = f"degenerate box: no thickness on {len(thin)} of {dims} axes"
    _GRID_STATS[key] = _GRID_STATS.get(key, 0) + 1
    return [float(v) for v in mins[:dims]], [float(v) for v in maxs[:dims]]


def gen_box(rng, f, kind=None):
    geo = f["geo"]
    lo = geo["lo"]
    side = geo["side"]
    hi = [l + side for l in lo]
    if kind is None:
        kind = rng.choice(["inside", "inside", "straddle", "enclose", "disjoint", "huge", "inf", "face", "face", "point",
                           "halfstep", "touch", "hdr", "gridstep", "gridstep", "gridstep", "degenerate", "degenerate"])
    if kind == "gridstep":
        if not f["points"]:
            return gen_box(rng, f)
        return gen_gridstep_box(rng, f, rng.choice([2, 3, 3]))
    if kind == "degenerate":
        if not f["points"]:
            return gen_box(rng, f)
        return gen_degenerate_box(rng, f, rng.choice([2, 3, 3]))
    if geo["mode"] == "edge" and rng.random() < 0.3:
        kind = "gridedge"
    dims = rng.choice([2, 3, 3])
    def frac(a, b, t):
        return a + (b - a) * t
    if kind == "inside":
        mins, maxs = [], []
        for i in range(3):
            a, b = sorted([rng.randrange(0, 65) / 64.0, rng.randrange(0, 65) / 64.0])
            mins.append(frac(lo[i], hi[i], a))
            maxs.append(frac(lo[i], hi[i], b))
    elif kind == "gridedge":
        # the box starts one step beyond the last coordinate of the int32 grid (x = 2^31 with scale 1, offset 0) and
        # touches the root cube there: the point at X = INT_MAX is a full step outside
        mins = [float(2 ** 31), lo[1] - 1.0, lo[2] - 1.0]
        maxs = [rng.choice([float(2 ** 31), float(2 ** 31 + 16), 1e30, math.inf]), hi[1] + 1.0, hi[2] + 1.0]
    elif kind == "straddle":
        mins = [frac(lo[i], hi[i], rng.choice([-0.5, -0.25, 0.25, 0.5])) for i in range(3)]
        maxs = [m + side * rng.choice([0.3, 0.5, 1.0]) for m in mins]
    elif kind == "enclose":
        mg = rng.choice([0.0, 0.0, 1.0, side, 1e6])
        mins = [l - mg for l in lo]
        maxs = [h + mg for h in hi]
    elif kind == "disjoint":
        mins = [h + rng.choice([0.5, side, 1e9]) for h in hi]
        maxs = [m + side for m in mins]
        if rng.random() < 0.5:
            i = rng.randrange(3)
            mins = list(lo)
            maxs = list(hi)
            mins[i] = lo[i] - 3 * side
            maxs[i] = lo[i] - side / 4
    elif kind == "huge":
        v = rng.choice([1e30, 1e300, 3e9, 1e12])
        mins = [-v] * 3
        maxs = [v] * 3
        if rng.random() < 0.3:     # far away on one side only: nothing may come back
            mins = [v / 2] * 3
    elif kind == "inf":
        mins = [-math.inf] * 3
        maxs = [math.inf] * 3
        if rng.random() < 0.4:
            i = rng.randrange(3)
            mins[i] = frac(lo[i], hi[i], rng.randrange(0, 9) / 8.0)
    elif kind in ("face", "touch"):
        # box faces on voxel faces of a random key
        k = rng.choice(f["keys"])
        cube = [(float(a), float(b)) for a, b in cube_of(geo, k)]
        if kind == "touch":      # touches the cube from outside
            mins = [c[1] for c in cube]
            maxs = [c[1] + side / 8 for c in cube]
            if rng.random() < 0.5:
                mins = [c[0] - side / 8 for c in cube]
                maxs = [c[0] for c in cube]
        else:
            mins = [c[0] for c in cube]
            maxs = [c[1] for c in cube]
    elif kind in ("point", "halfstep"):
        if not f["points"]:
            return gen_box(rng, f)
        p = f["points"][rng.choice(list(f["points"]))]
        q = f["points"][rng.choice(list(f["points"]))]
        sc, of = geo["scales"], geo["offsets"]
        h = 0.5 if kind == "halfstep" else 0.0
        sgn = rng.choice([-1, 1])
        a = [(p[i] + sgn * h) * sc[i] + of[i] for i in range(3)]
        b = [(q[i] - sgn * h) * sc[i] + of[i] for i in range(3)]
        mins = [min(x, y) for x, y in zip(a, b)]
        maxs = [max(x, y) for x, y in zip(a, b)]
    else:   # hdr: exactly the header's bounds
        mins = list(f["hdr_mins"])
        maxs = list(f["hdr_maxs"])
    return [float(v) for v in mins[:dims]], [float(v) for v in maxs[:dims]]


def gen_levels(rng, f):
    dmax = max(k[0] for k in f["keys"])
    r = rng.random()
    if r < 0.3:
        return ("A",)
    if r < 0.5:
        return ("I", rng.choice([0, 0, 1, dmax, dmax + 1, max(0, dmax - 1), rng.randrange(0, 7)]))
    if r < 0.72:
        lo = rng.choice([0, 0, 1, 2, dmax, -1])
        hi = rng.choice([lo, lo + 1, lo + 2, dmax + 1, dmax + 3, 0, lo - 1])
        return ("R", lo, hi)
    sp = f["spacing"]
    res = rng.choice([sp, sp / 2, sp / 4, sp / 32, sp * 2, sp * 1.5, sp / 3, sp * 0.3, 0.7, 3.0, sp / 1024])
    return ("S", float(res))


def gen_query(rng, f, box_kind=None):
    box = gen_box(rng, f, box_kind) if (box_kind is not None or rng.random() < 0.8) else None
    lv = gen_levels(rng, f) if (box is None or rng.random() < 0.6) else ("A",)
    if box is None and lv == ("A",) and rng.random() < 0.5:
        lv = gen_levels(rng, f)
    return (box, lv)


BOX_CONTAINERS = ["f64", "f64", "f64", "i64", "f32", "list", "tuple"]


def make_bounds(box, container="f64"):
    """the caller's Bounds object; the container falls back to float64 when it cannot hold the values exactly"""
    laspy, C = _laspy()
    if box is None:
        return None
    if container in ("list", "tuple"):      # plain Python sequences of floats (accepted by the unchanged source)
        seq = list if container == "list" else tuple
        return C.Bounds(mins=seq(float(v) for v in box[0]), maxs=seq(float(v) for v in box[1]))
    dt = np.float64
    vals = list(box[0]) + list(box[1])
    if container == "i64" and all(math.isfinite(v) and float(v).is_integer() and abs(v) < 2 ** 53 for v in vals):
        dt = np.int64
    elif container == "f32":
        with np.errstate(all="ignore"):
            if all(float(np.float32(v)) == v or (v != v) for v in vals):
                dt = np.float32
    return C.Bounds(mins=np.array(box[0], dtype=dt), maxs=np.array(box[1], dtype=dt))


def make_level(lv):
    """(level object, resolution) of a levels tuple"""
    if lv[0] == "I":
        return lv[1], None
    if lv[0] == "R":
        return range(lv[1], lv[2]), None
    if lv[0] == "T":
        return range(lv[1], lv[2], lv[3]), None
    if lv[0] == "S":
        return None, lv[1]
    return None, None


def snap_bounds(b):
    """what the caller can see of its Bounds object"""
    if b is None:
        return None
    out = []
    for a in (b.mins, b.maxs):
        arr = np.asarray(a)
        out.append((type(a).__name__, arr.dtype.str, tuple(arr.shape), arr.tobytes().hex()))
    return tuple(out)


def snap_reader(rd):
    """what a query must leave alone in the reader: the header's scaling and extent"""
    h = rd.header
    return tuple(np.asarray(a, dtype=np.float64).tobytes() for a in (h.mins, h.maxs, h.scales, h.offsets)) + (int(h.point_count),)


def run_impl(reader_or_raw, q, spy=False, source="bytesio", bounds=None, level=None, info=None):
    """-> ('ok', [record bytes], reader) | ('e', kind, None); fresh reader (through `source`) when given raw bytes.
    bounds / level: the caller's objects to use instead of fresh ones (re-use across queries and files).
    info (dict): filled with what the query did to the caller's Bounds and to the reader's header"""
    laspy, C = _laspy()
    proxy()
    box, lv = q
    cleanup = None
    info = info if info is not None else {}
    try:
        if isinstance(reader_or_raw, (bytes, bytearray)):
            rd, cleanup = open_reader(reader_or_raw, "spy" if spy else source)
        else:
            rd = reader_or_raw
        b = bounds if bounds is not None else make_bounds(box)
        lvl, res = make_level(lv)
        if level is not None:
            lvl = level
        info["bounds_obj"] = b
        before = (snap_bounds(b), snap_reader(rd))

        def call():
            if b is not None and lvl is None and res is None:
                return rd.spatial_query(b)
            if b is None and lvl is not None:
                return rd.level_query(lvl)
            return rd.query(bounds=b, resolution=res, level=lvl)
        try:
            pts = with_watchdog(call)
        finally:
            after = (snap_bounds(b), snap_reader(rd))
            if before[0] != after[0]:
                info["bounds_changed"] = (before[0], after[0])
            if before[1] != after[1]:
                info["header_changed"] = True
        raw = pts.array.tobytes()
        sz = pts.point_format.size
        info["points"] = pts
        return ("ok", [raw[i * sz:(i + 1) * sz] for i in range(len(pts))], rd)
    except Watchdog:
        return ("e", "LOOPS", None)
    except Exception as ex:  # noqa
        info["error"] = f"{type(ex).__name__}: {ex}"[:300]
        return ("e", common.exc_kind(ex), None)
    finally:
        if cleanup is not None and source in ("path", "with-path"):
            cleanup()


# ---- exact scaling for the model -----------------------------------------------------------------------
def scaled_inputs(f, q, other_boxes=()):
    """tokens geom, qbox, hz, qgrid, levels, csys for the model; other_boxes: the boxes of the other queries of a history on
    the same reader (one common unit 1/D for the whole history)"""
    geo = f["geo"]
    box, lv = q
    base = [Fraction(v) for v in geo["lo"]] + [Fraction(geo["side"])] + [Fraction(v) for v in f["hdr_z"]] \
        + [Fraction(v) for v in geo["offsets"]]
    far = 2 ** (max(abs(v).numerator.bit_length() - v.denominator.bit_length() for v in base + [Fraction(1)]) + 40)
    finite = list(base)
    for bx in [box] + list(other_boxes):
        if bx is not None:
            finite += [Fraction(v) for v in list(bx[0]) + list(bx[1]) if math.isfinite(v) and abs(v) < far]
    D = 1
    for v in finite:
        D = max(D, v.denominator)
    big = far * D * 4

    def sc(v):
        # +-inf and values beyond every finite quantity of the case: one far value (order-equivalent)
        if v == math.inf or (math.isfinite(v) and v >= far):
            return big
        if v == -math.inf or (math.isfinite(v) and v <= -far):
            return -big
        r = Fraction(v) * D
        assert r.denominator == 1
        return r.numerator
    geom = f"{sc(geo['lo'][0])},{sc(geo['lo'][1])},{sc(geo['lo'][2])},{sc(geo['side'])}"
    hz = f"{sc(f['hdr_z'][0])},{sc(f['hdr_z'][1])}"
    if box is None:
        qbox = "N"
        qgrid = "-"
    else:
        mins, maxs = box
        if len(mins) == 2:
            qbox = "2:" + ",".join(str(sc(v)) for v in (mins[0], mins[1], maxs[0], maxs[1]))
            m3 = list(mins) + [f["hdr_mins"][2]]
            x3 = list(maxs) + [f["hdr_maxs"][2]]
        else:
            qbox = "3:" + ",".join(str(sc(v)) for v in list(mins) + list(maxs))
            m3, x3 = list(mins), list(maxs)
        qs = []
        with np.errstate(all="ignore"):
            for b3 in (m3, x3):
                for i in range(3):
                    v = (np.float64(b3[i]) - np.float64(geo["offsets"][i])) / np.float64(geo["scales"][i])
                    if np.isinf(v):
                        qs += [int(np.sign(v)) * 2 ** 40, 1]
                    else:
                        fr = Fraction(float(v))
                        qs += [fr.numerator, fr.denominator]
        qgrid = ",".join(str(v) for v in qs)
    if lv[0] == "A":
        lvt = "A"
    elif lv[0] == "I":
        lvt = f"I:{lv[1]}"
    elif lv[0] == "R":
        lvt = f"R:{lv[1]},{lv[2]}"
    else:
        s, r = Fraction(f["spacing"]), Fraction(lv[1])
        lvt = f"S:{s.numerator},{s.denominator},{r.numerator},{r.denominator}"
    ax = []
    for i in range(3):
        s = Fraction(geo["scales"][i])
        ax += [s.numerator, s.denominator, sc(geo["offsets"][i])]
    csys = ",".join(str(v) for v in [D] + ax)
    return geom, qbox, hz, qgrid, lvt, csys, sc


def caller_token(b, sc):
    """the caller's Bounds object as the model's qbox token (same unit as the query's box)"""
    if b is None:
        return "N"
    try:
        mins = [float(v) for v in np.asarray(b.mins).reshape(-1)]
        maxs = [float(v) for v in np.asarray(b.maxs).reshape(-1)]
        if len(mins) != len(maxs) or len(mins) not in (2, 3):
            return f"shape:{len(mins)},{len(maxs)}"
        return f"{len(mins)}:" + ",".join(str(sc(v)) for v in mins + maxs)
    except Exception as ex:  # noqa: a value that is not of the case's unit
        return "other:" + common.exc_kind(ex)


def q_canon(q):
    box, lv = q
    return (None if box is None else (tuple(lasbits(v) for v in box[0]), tuple(lasbits(v) for v in box[1])), lv)


def lasbits(v):
    return struct.unpack("<Q", struct.pack("<d", v))[0]


def q_json(q):
    box, lv = q
    return {"box": None if box is None else {"mins": [repr(v) for v in box[0]], "maxs": [repr(v) for v in box[1]]},
            "levels": list(lv)}


def q_from_json(j):
    box = None if j["box"] is None else ([float(v) for v in j["box"]["mins"]], [float(v) for v in j["box"]["maxs"]])
    return (box, tuple(j["levels"]))


# ------------------------------------------------------------------------------------------------------
# oracle (model independent)
# ------------------------------------------------------------------------------------------------------
def selected_levels(f, lv):
    """predicate on levels, from the property text"""
    if lv[0] == "A":
        return lambda l: True
    if lv[0] == "I":
        return lambda l: l == lv[1]
    if lv[0] == "R":
        return lambda l: lv[1] <= l < lv[2]
    if lv[0] == "T":
        return lambda l: l in range(lv[1], lv[2], lv[3])
    sp, res = Fraction(f["spacing"]), Fraction(lv[1])
    L = 0
    while sp / (2 ** L) > res:
        L += 1
    return lambda l: 0 <= l <= L


def oracle(f, q, got):
    """None when fine, else a description. got = list of record bytes"""
    box, lv = q
    sel = selected_levels(f, lv)
    geo = f["geo"]
    rec_tag = {v[3]: t for t, v in f["points"].items()}
    level_of = {}
    for k, tags in f["nodes"].items():
        for t in tags:
            level_of[t] = k[0]
    seen = {}
    for r in got:
        t = rec_tag.get(r)
        if t is None:
            return "a returned record is not a stored point"
        seen[t] = seen.get(t, 0) + 1
        if seen[t] > 1:
            return f"point {t} returned twice"
        if not sel(level_of[t]):
            return f"point {t} of level {level_of[t]} returned, level not selected"
    for t, (X, Y, Z, _r) in f["points"].items():
        if not sel(level_of[t]):
            continue
        if box is None:
            status = "must"
        else:
            status = "must"
            for i, c in enumerate((X, Y, Z)[:len(box[0])]):
                s = Fraction(geo["scales"][i])
                real = s * c + Fraction(geo["offsets"][i])
                lo, hi = box[0][i], box[1][i]
                below = (lo != -math.inf) and (lo == math.inf or real < Fraction(lo))
                above = (hi != math.inf) and (hi == -math.inf or real > Fraction(hi))
                if below or above:
                    far_below = below and (lo == math.inf or Fraction(lo) - real > s / 2 + s / 10 ** 6)
                    far_above = above and (hi == -math.inf or real - Fraction(hi) > s / 2 + s / 10 ** 6)
                    if far_below or far_above:
                        status = "mustnot"
                        break
                    status = "band"
        if status == "must" and t not in seen:
            return f"point {t} (X,Y,Z)=({X},{Y},{Z}) of level {level_of[t]} lies inside the box but is not returned"
        if status == "mustnot" and t in seen:
            return f"point {t} (X,Y,Z)=({X},{Y},{Z}) is more than half a step outside the box but is returned"
    return None


# ------------------------------------------------------------------------------------------------------
# check entry points
# ------------------------------------------------------------------------------------------------------
_CASES = None
_SESSIONS = None


def gen_order(rng, nfiles):
    """a history over the files: every file at least once, some twice, not sorted"""
    order = list(range(nfiles)) + [rng.randrange(nfiles) for _ in range(rng.choice([1, 2, 3]))]
    rng.shuffle(order)
    return order


def all_xy_box(rng):
    """2-D boxes that contain every file's x / y extent"""
    v = rng.choice([math.inf, math.inf, 1e30, 1e300, 3e9])
    return ([-v, -v], [v, v])


FLAT_AXES = [(2,), (0, 1, 2), (2,), (0,), (1,), (2,), (0, 1), (1, 2), (0, 2), (0, 1, 2)]


def make_cases(ctx):
    global _SESSIONS
    rng = ctx.rng
    cases = []
    sessions = []
    nfiles = ctx.n(45, 400)
    for i in range(nfiles):
        f = build_file(rng)
        qs = [gen_query(rng, f) for _ in range(ctx.n(9, 14))]
        cases.append((f, qs))
    # small corner files
    for depth, budget in [(0, 1), (1, 9), (5, 40)]:
        f = build_file(rng, depth=depth, budget=budget)
        cases.append((f, [(None, ("A",))] + [gen_query(rng, f) for _ in range(6)]))
    # grid files: points with neighbours on the adjacent grid steps of every axis (in the root node and below), centres
    # preferably on steps whose real coordinate does not divide back to an integer in binary64; asked boxes whose
    # bounds are AT and AROUND those steps, mins and maxs and the three axes independently
    for _ in range(ctx.n(14, 120)):
        f = build_file(rng, grid=True, depth=rng.choice([0, 1, 1, 2, 3]), budget=rng.choice([1, 3, 8, 14]))
        if not f["points"]:
            continue
        qs = [gen_query(rng, f, box_kind="gridstep") for _ in range(ctx.n(14, 30))]
        cases.append((f, qs))
    # FLAT data sets: all the points on one z (a floor, a water surface), one x or one y (a profile), on a line, at ONE location
    # (also a file with a single point): the header's extent has no thickness there, so a 2-D box completed with the
    # header's z range, the header's own bounds and the boxes through stored points are boxes WITHOUT thickness
    for n in range(ctx.n(16, 120)):
        axes = FLAT_AXES[n % len(FLAT_AXES)]
        tiny = len(axes) == 3 and n % 2 == 0
        f = build_file(rng, flat=axes, grid=rng.random() < 0.3, depth=0 if tiny else rng.choice([0, 1, 2, 2, 3, 4]),
                       budget=1 if tiny else rng.choice([1, 3, 8, 14, 25]))
        if not f["points"]:
            continue
        qs = []
        for _q in range(ctx.n(9, 14)):
            box, lv = gen_query(rng, f, box_kind=rng.choice(["degenerate", "degenerate", "hdr", "point", "inside", "enclose", "inf",
                                                              "face", "gridstep", None, None]))
            if box is not None and len(box[0]) == 3 and 2 in axes and rng.random() < 0.5:
                box = (box[0][:2], box[1][:2])          # a window in x / y on a file without thickness in z
            qs.append((box, lv))
        cases.append((f, qs))
    # tiles: files that share the x / y window of their root cube (the same cube, or the cube moved up / down by whole
    # sides) and differ in content and z range; the same queries are asked of every file of the family
    for _ in range(ctx.n(10, 60)):
        geo = gen_geometry(rng)
        shifts = [0] + [rng.choice([0, 1, -1, 2, -3]) for _ in range(rng.choice([1, 2, 2]))]
        fam = []
        for dz in shifts:
            try:
                fam.append(build_file(rng, geo=shift_geometry(geo, dz), depth=rng.choice([1, 2, 3]), budget=rng.choice([3, 8, 14]),
                                      flat=(2,) if rng.random() < 0.25 else None))     # some tiles are flat (one z)
            except AssertionError:
                continue
        qs = []
        for _q in range(ctx.n(6, 10)):
            box, lv = gen_query(rng, rng.choice(fam))
            if box is not None and rng.random() < 0.6:
                box = (box[0][:2], box[1][:2])      # mostly windows in x / y
            if box is None and rng.random() < 0.5:
                box = all_xy_box(rng)
            qs.append((box, lv))
        for f in fam:
            cases.append((f, list(qs)))
        for q in qs:
            sessions.append((fam, q, gen_order(rng, len(fam)), rng.choice(BOX_CONTAINERS), {}))
    # unrelated files, one window that contains them all (and any other query) with the same objects
    plain = [f for f, _ in cases[:nfiles]]
    for i in range(0, len(plain) - 2, 3):
        fam = plain[i:i + 3]
        for q in [(all_xy_box(rng), gen_levels(rng, rng.choice(fam)) if rng.random() < 0.5 else ("A",)),
                  gen_query(rng, rng.choice(fam))]:
            srcs = {k: rng.choice(SOURCES) for k in range(len(fam)) if rng.random() < 0.5}
            sessions.append((fam, q, gen_order(rng, len(fam)), rng.choice(BOX_CONTAINERS), srcs))
    # malformed hierarchies
    for kind in MALFORMED:
        for _ in range(ctx.n(2, 10)):
            f = build_file(rng, malformed=kind, budget=rng.choice([1, 3, 6]))
            bk = bad_pair(kind, f["keys"])[0]
            kc = cube_of(f["geo"], bk)
            inside_bad = ([float(c[0]) for c in kc], [float(c[1]) for c in kc])
            other = child_key((0, 0, 0, 0), 7 - (bk[1] + 2 * bk[2] + 4 * bk[3]))     # the diagonally opposite octant
            oc = cube_of(f["geo"], other)
            shrink = f["geo"]["side"] / 8
            away = ([float(c[0]) + shrink for c in oc], [float(c[1]) - shrink for c in oc])
            cases.append((f, [(None, ("A",)), (inside_bad, ("A",)), (away, ("A",)), (None, ("I", 0)), (None, ("R", 0, 2)),
                              gen_query(rng, f)]))
    for k, v in _GRID_STATS.items():
        ctx.count(k, v)
    _GRID_STATS.clear()
    _SESSIONS = sessions
    return cases


def tag_records(f):
    return {t: v[3] for t, v in f["points"].items()}


def correspond(ctx):
    global _CASES
    ctx.extra["rule"] = (
        "COPC files built in memory: formats 6/7/8; dyadic root cubes (small / large / at the end of the int32 grid / sub-unit), "
        "scales incl. 0.01/0.001 and powers of two, depth 0..5, 1..40 occupied keys, 0..5 points per node (empty interior and "
        "leaf nodes, with an empty chunk or offset 0 / size 0), points biased to voxel faces, hierarchy split over random pages, "
        "FLAT data sets (all points on one z, one x, one y, on a line, at one location, one point; the coordinate anywhere or on "
        "the face between two voxels; header min = max on that axis), "
        "chunks and pages shuffled with gaps (chunks in any order, not level by level); families of tiles (the same x / y "
        "window, other content and z range) asked the same queries; queries: boxes inside / straddling / enclosing / "
        "disjoint / 1e30,1e300 / +-inf / "
        "on voxel faces / touching from outside / on point coordinates / half a step off points / header bounds / WITHOUT "
        "thickness on 1, 2 or 3 axes exactly on a stored point (a plane, a line, the point; 2-D boxes on files whose z extent is "
        "one value) / bounds AT "
        "and AROUND grid steps in the binary64 sense ((k + fr) steps for fr = 0, +-1e-13..1e-4, +-0.25..0.49, 0.5 +- 1e-5, "
        "+-0.51..0.999999999, written by binary64 arithmetic, by correct rounding of the exact value or as a decimal literal, "
        "moved by 0..2 ulps; mins and maxs and the three axes independently; negative and positive steps; k next to stored "
        "points that have neighbours on the steps k-1, k+1 (k+-2) of every axis, centres preferably on steps whose real "
        "coordinate does not divide back to an integer, 0.29 / 0.01), 2-D and 3-D, "
        "level None / int / range (also empty) / resolution at and away from powers of two; malformed: self reference, page "
        "without the key, chained reference, beyond EOF, cut entry, mutually resetting pages. Sources: BytesIO, file object "
        "without readinto, path on disk (also as a context manager), http (queue and executor strategy, 1..5 workers, in-process server). Histories: one "
        "reader for many queries, some ABORTED by a malformed page reference or by a transient fault of the source (OSError on a "
        "local file object / HTTP 503) at the n-th read of the query (pages, then chunk ranges), mostly repeated right away, "
        "the records of earlier queries kept alive (a quarter of them overwritten by the caller) and compared after every "
        "later query, every answer compared with a fresh reader's; the hierarchy stored in a VLR in front of the points / in an "
        "EVLR behind them (other EVLRs around) / loose between the chunks, pages in any order (root page first, last, in the "
        "middle; bytes of no page between them); ONE Bounds object (float64 / float32 / int64 arrays) and one level object handed to the "
        "queries of several files in turn, the Bounds object and the reader's header compared before / after every call. "
        "non-trivial = malformed, or the "
        "result is a proper non-empty subset of the stored points; distinct by (file bytes hash, query bit patterns)")
    _CASES = make_cases(ctx)
    rng = ctx.rng
    cmds = []
    index = []
    for fi, (f, qs) in enumerate(_CASES):
        tree, ptok = file_model(f)
        f["_tree"] = tree
        for q in qs:
            geom, qbox, hz, qgrid, lvt, csys, sc = scaled_inputs(f, q)
            cmds.append(f"query {tree} {geom} {qbox} {hz} {qgrid} {lvt} {ptok} {csys}")
            cmds.append(f"load {tree} {geom} {qbox} {hz} {lvt}")
            index.append((fi, q, qbox, sc))
    outs = common.run_model(cmds, name=DRIVER)
    dis = []
    import hashlib
    group_cmds = []
    group_expect = []
    for n, (fi, q, qbox, sc) in enumerate(index):
        f = _CASES[fi][0]
        mq, ml = outs[2 * n].split(), outs[2 * n + 1].split()
        recs = tag_records(f)
        px = proxy()
        px.calls.clear()
        info = {}
        impl = run_impl(f["raw"], q, spy=True, info=info)
        ctx.traces += 1
        fh = hashlib.sha1(f["raw"]).hexdigest()[:12]
        if mq[0] == "ok":
            model = ("ok", [] if mq[1] == "-" else [recs[int(t)] for t in mq[1].split(",")])
        else:
            model = ("e", mq[1])
        flags = dict(t.split("=") for t in mq[2:])
        kind_box = "nobox" if q[0] is None else f"box{len(q[0][0])}d"
        ctx.count(kind_box)
        ctx.count("levels:" + q[1][0])
        ctx.count("model:" + (mq[0] if mq[0] == "ok" else mq[1]))
        ctx.count("fmt%d" % f["fmt"])
        ctx.count("hierarchy stored " + {"loose": "loose between the chunks", "vlr": "in a VLR in front of the points",
                                         "evlr": "in an EVLR behind the points"}[f["host"]] + ", root page " + f["root_where"]
                  + (" of several" if f["npages"] > 1 and f["host"] != "loose" else ""))
        if f.get("flat"):
            ctx.count("flat data set (one " + "/".join("xyz"[i] for i in f["flat"]) + ")" if len(f["flat"]) < 3 else "flat data set (one location)")
        if q[0] is not None:
            m3 = list(q[0][0]) + ([f["hdr_mins"][2]] if len(q[0][0]) == 2 else [])
            x3 = list(q[0][1]) + ([f["hdr_maxs"][2]] if len(q[0][1]) == 2 else [])
            thin = sum(1 for a, b in zip(m3, x3) if a == b)
            if thin:
                ctx.count(f"box without thickness on {thin} axis/axes" + (" (2-D box completed with a header z range of one value)"
                                                                          if len(q[0][0]) == 2 and m3[2] == x3[2] else ""))
        if f["malformed"]:
            ctx.count("malformed:" + f["malformed"])
        else:
            if flags.get("wf") != "T" or flags.get("ptsok") != "T":
                dis.append({"kind": "generated file is not well-formed for the theorems", "input": case_json(f, q),
                            "model": flags, "impl": None})
        npts = len(f["points"])
        nontrivial = bool(f["malformed"]) or (model[0] == "ok" and 0 < len(model[1]) < npts)
        ctx.case((fh, q_canon(q)), nontrivial=nontrivial,
                 sample={"file": f["label"], "query": q_json(q), "model": outs[2 * n][:200]})
        same = (impl[0] == model[0]) and (impl[1] == model[1])
        if not same:
            dis.append({"kind": f"query result ({kind_box}, levels {q[1][0]}" + (f", {f['malformed']}" if f["malformed"] else "") + ")",
                        "input": case_json(f, q),
                        "model": model[1] if model[0] == "e" else f"{len(model[1])} records",
                        "impl": impl[1] if impl[0] == "e" else f"{len(impl[1])} records"})
            continue
        # the state component: the caller's Bounds object after the call (model: unchanged, C15_shared_bounds)
        if "bounds_obj" in info:
            ctx.traces += 1
            impl_caller = caller_token(info["bounds_obj"], sc)
            if flags.get("caller") != impl_caller or flags.get("caller") != qbox or flags.get("fresh") != "T":
                dis.append({"kind": "the caller's Bounds object after the query", "input": case_json(f, q),
                            "model": {"caller": flags.get("caller"), "before": qbox, "fresh": flags.get("fresh")},
                            "impl": {"caller": impl_caller}})
        # grouping: fetched ranges and chunk table
        if impl[0] == "ok" and ml[0] == "ok" and ml[1] != "-":
            nodes = [t.split(".") for t in ml[1].split(",")]
            gcmd = "group " + ",".join(f"{t[4]}.{t[5]}.{t[6]}" for t in nodes)
            group_cmds.append(gcmd)
            src = impl[2].source
            reads = [r for r in src.reads]
            group_expect.append((f, q, "bytesio", reads, list(px.calls)))
            # the same query through another kind of source: same records in the same order, same buffer and chunk table
            if rng.random() < 0.5:
                other = rng.choice(SOURCES[1:])
                px.calls.clear()
                WORLD.log.clear()
                impl2 = run_impl(f["raw"], q, source=other)
                ctx.traces += 1
                ctx.count("corr source:" + other.split("/")[0])
                if (impl2[0], impl2[1]) != model:
                    dis.append({"kind": f"query result through a {other.split('/')[0]} source", "input": dict(case_json(f, q), source=other),
                                "model": f"{len(model[1])} records",
                                "impl": impl2[1] if impl2[0] == "e" else f"{len(impl2[1])} records"})
                else:
                    group_cmds.append(gcmd)
                    group_expect.append((f, q, other, list(WORLD.log) if other.startswith("http") else None, list(px.calls)))
    correspond_reader_sessions(ctx, _CASES, dis)
    gouts = common.run_model(group_cmds, name=DRIVER) if group_cmds else []
    for line, (f, q, source, reads, calls) in zip(gouts, group_expect):
        ctx.traces += 1
        parts = dict(t.split("=") for t in line.split())

        def ranges(tok):
            return [] if tok == "-" else [tuple(int(v) for v in t.split(":")) for t in tok.split(",")]
        queries, table, queue = ranges(parts["queries"]), ranges(parts["table"]), ranges(parts["queue"])
        impl_table = calls[-1][1] if calls else None
        impl_bytes = calls[-1][0] if calls else None
        want_bytes = b"".join(f["raw"][o:o + s] for o, s in queries)
        queue_bytes = b"".join(f["raw"][o:o + s] for o, s in queue)
        if reads is None:               # sources whose reads are not recorded: buffer and table only
            impl_reads = queries
        elif source.startswith("http"):  # concurrent requests: as a multiset, after the hierarchy pages; a range of
            queries = sorted(r for r in queries if r[1] > 0)        # 0 bytes is answered without a request
            impl_reads = sorted(reads[-len(queries):]) if queries else []
        else:
            impl_reads = reads[-len(queries):] if queries else []
        if not f["malformed"] and parts.get("apart") != "T":
            dis.append({"kind": "generated file has overlapping chunks (hypothesis of C15_any_source)", "input": case_json(f, q),
                        "model": parts.get("apart"), "impl": None})
        if impl_reads != queries or impl_table != table or impl_bytes != want_bytes or queue_bytes != want_bytes:
            dis.append({"kind": "grouping of contiguous chunks" + ("" if source == "bytesio" else f" ({source.split('/')[0]} source)"),
                        "input": dict(case_json(f, q), source=source),
                        "model": {"queries": queries, "table": table, "queue": queue},
                        "impl": {"reads": impl_reads, "table": impl_table, "bytes_equal": impl_bytes == want_bytes}})
    return dis


# ---- correspondence of reader sessions: the outcome of every query AND the reader's cached hierarchy after it -----------
def impl_reader_session(f, steps, source):
    """-> [(outcome, cache)] per step; outcome = ('ok', records) | ('e', kind) | ('fault',) | ('fault-but', what);
    cache = the entries of CopcReader.root_page after the query"""
    rd, cleanup = open_reader(f["raw"], source)
    fh = fault_handle(rd, source)
    out = []
    try:
        for q, fault in steps:
            if fault is not None:
                fh.arm(fault)
            try:
                impl = run_impl(rd, q)
            finally:
                fired = fault is not None and fh.fired
                fh.disarm()
            if fired:
                o = ("fault",) if impl == ("e", "EOther:OSError", None) else ("fault-but", impl[1] if impl[0] == "e" else f"{len(impl[1])} records")
            elif impl[0] == "ok":
                o = ("ok", impl[1])
            else:
                o = ("e", impl[1])
            cache = sorted((k.level, k.x, k.y, k.z, e.offset, e.byte_size, e.point_count) for k, e in rd.root_page.entries.items())
            out.append((o, cache))
    finally:
        cleanup()
    return out


def correspond_reader_sessions(ctx, cases, dis):
    rng = ctx.rng
    cmds, index = [], []
    for f, qs in cases:
        steps, _src, _scr = gen_reader_session(rng, f, qs)
        steps = [(q, fl) for q, fl in steps if q[1][0] != "T"][:ctx.n(8, 14)]
        if not steps:
            continue
        source = rng.choice(["flaky-bytesio", "flaky-plain"])
        boxes = [q[0] for q, _fl in steps]
        toks = []
        for q, fl in steps:
            geom, qbox, hz, qgrid, lvt, csys, _sc = scaled_inputs(f, q, boxes)
            toks.append(f"{qbox}/{qgrid}/{lvt}/{'-' if fl is None else fl}")
        tree, ptok = file_model(f)
        cmds.append(f"rsession {tree} {geom} {hz} {ptok} {csys} {'|'.join(toks)}")
        index.append((f, steps, source))
    outs = common.run_model(cmds, name=DRIVER) if cmds else []
    for line, (f, steps, source) in zip(outs, index):
        recs = tag_records(f)
        try:
            impl = impl_reader_session(f, steps, source)
        except Exception as ex:  # noqa
            dis.append({"kind": "reader session cannot be run on the implementation", "input": rs_json(f, steps, source, ()),
                        "model": line[:200], "impl": common.exc_kind(ex)})
            continue
        body = line.split(" wf=")[0]
        parts = body.split("|")
        ctx.count("corr reader session" + (" (malformed hierarchy)" if f["malformed"] else ""))
        if len(parts) != len(steps):
            dis.append({"kind": "reader session: model output", "input": rs_json(f, steps, source, ()), "model": line[:300], "impl": None})
            continue
        for i, (part, (o, cache)) in enumerate(zip(parts, impl)):
            ctx.traces += 1
            mo, mc = part.split("@")
            if mo == "fault":
                model_o = ("fault",)
                ctx.count("corr reader session: query aborted by a fault of the source")
            elif mo.startswith("ok:"):
                model_o = ("ok", [] if mo[3:] == "-" else [recs[int(t)] for t in mo[3:].split(",")])
            else:
                model_o = ("e", mo[4:])
                ctx.count("corr reader session: query aborted by " + mo[4:])
            model_c = sorted(tuple(int(v) for v in t.split(".")) for t in mc.split(",")) if mc != "-" else []
            if steps[i][1] is not None and model_o != ("fault",):
                ctx.count("corr reader session: fault armed beyond the reads of the query")
            if model_o != o:
                dis.append({"kind": "reader session: outcome of a query" + (f" ({f['malformed']})" if f["malformed"] else ""),
                            "input": rs_json(f, steps[:i + 1], source, ()),
                            "model": model_o[0] + (f" {len(model_o[1])} records" if model_o[0] == "ok" else (" " + model_o[1] if model_o[0] == "e" else "")),
                            "impl": o[0] + (f" {len(o[1])} records" if o[0] == "ok" else (" " + str(o[1]) if len(o) > 1 else ""))})
                break
            if model_c != cache:
                only_m = [e for e in model_c if e not in cache]
                only_i = [e for e in cache if e not in model_c]
                dis.append({"kind": "reader session: the reader's cached hierarchy after a query" + (f" ({f['malformed']})" if f["malformed"] else "")
                            + (" that was aborted" if model_o[0] != "ok" else ""),
                            "input": rs_json(f, steps[:i + 1], source, ()),
                            "model": {"entries": len(model_c), "only in the model": only_m[:6]},
                            "impl": {"entries": len(cache), "only in the implementation": only_i[:6]}})
                break


def case_json(f, q):
    return {"file": f["label"], "query": q_json(q), "file_hex": f["raw"].hex(), "truth": truth_json(f)}


def truth_json(f):
    return {"geo": {k: (v if not isinstance(v, list) else [repr(x) for x in v]) for k, v in f["geo"].items()},
            "spacing": repr(f["spacing"]), "malformed": f["malformed"],
            "nodes": [[list(k), tags] for k, tags in f["nodes"].items()],
            "points": {str(t): [v[0], v[1], v[2], v[3].hex()] for t, v in f["points"].items()}}


def truth_from_json(j, raw):
    geo = {k: ([float(x) for x in v] if isinstance(v, list) else v) for k, v in j["geo"].items()}
    return {"raw": raw, "geo": geo, "spacing": float(j["spacing"]), "malformed": j["malformed"],
            "nodes": {tuple(k): tags for k, tags in j["nodes"]},
            "points": {int(t): (v[0], v[1], v[2], bytes.fromhex(v[3])) for t, v in j["points"].items()},
            "keys": [tuple(k) for k, _ in j["nodes"]]}


def judge(f, q, impl, info=None):
    """oracle verdict for the answer `impl` of one query: None or (kind, observed)"""
    bad = f["malformed"]
    box, lv = q
    if impl[0] == "e" and impl[1] == "LOOPS":
        return ("query does not terminate" + (f" ({bad})" if bad else ""), f"no answer within {WATCHDOG_S} s")
    if info and info.get("bounds_changed"):
        b0, b1 = info["bounds_changed"]
        return ("the query modifies the caller's Bounds object",
                f"Bounds before the call: mins/maxs {[x[1:3] for x in b0]}, after: {[x[1:3] for x in b1]}; "
                f"values before {[x[3] for x in b0]}, after {[x[3] for x in b1]}")
    if info and info.get("header_changed"):
        return ("the query modifies the reader's header", "mins / maxs / scales / offsets / point_count differ after the call")
    if bad:
        reached = (box is None) and (lv[0] == "A" or (lv[0] == "R" and lv[2] > 1) or (lv[0] == "I" and lv[1] >= 1))
        if bad != "mutual" and reached:
            if impl != ("e", "ELaspy", None):
                return (f"broken page reference ({bad}) not reported",
                        f"expected LaspyException, got {impl[1] if impl[0] == 'e' else str(len(impl[1])) + ' records'}")
            return None
        if impl[0] == "e":
            if impl[1] == "ELaspy":
                return None      # the broken part may be reached through the box as well
            return (f"unexpected exception ({bad})", impl[1])
    if impl[0] == "e":
        return ("query raises", impl[1] + (f" ({info['error']})" if info and info.get("error") else ""))
    why = oracle(f, q, impl[1])
    if why:
        cls = "missing point" if "not returned" in why else ("outside point" if "outside" in why else "wrong record")
        if cls == "outside point" and ("(2147483647," in why or "(-2147483648," in why):
            cls = "outside point at the end of the int32 grid"
        return (cls, why)
    return None


def check_one(f, q, reader=None, source="bytesio", bounds=None, level=None):
    """oracle verdict for one query: None or (kind, observed)"""
    info = {}
    impl = run_impl(reader if reader is not None else f["raw"], q, source=source, bounds=bounds, level=level, info=info)
    v = judge(f, q, impl, info)
    if v and source != "bytesio" and reader is None:
        return (v[0] + f" [{source.split('/')[0]} source]", v[1] + f" [source: {source}]")
    return v


# ---- sessions: the SAME Bounds / level objects and the same readers used for several files and several queries ---------
def run_session(files, q, order, container="f64", shared=True, sources=None, answers_only=False):
    """one Bounds object and one level object for the whole session, one reader per file (opened at its first step);
    -> (step index, kind, observed) of the first step whose answer is wrong, or None"""
    box, lv = q
    try:
        b = make_bounds(box, container)
    except Exception as ex:  # noqa: the box cannot even be handed to a query
        return (0, "query raises", common.exc_kind(ex) + f" (building the Bounds object of the box: {type(ex).__name__}: {ex})"[:300])
    lvl, _res = make_level(lv)
    readers = {}
    cleanups = []
    side = None
    try:
        for step, fi in enumerate(order):
            f = files[fi]
            if fi not in readers:
                try:
                    readers[fi], cl = open_reader(f["raw"], (sources or {}).get(fi, "bytesio"))
                    cleanups.append(cl)
                except Exception as ex:  # noqa
                    return (step, "CopcReader cannot open a well-formed file", common.exc_kind(ex))
            info = {}
            impl = run_impl(readers[fi], q, bounds=b if shared else make_bounds(box, container), level=lvl if shared else None, info=info)
            v = judge(f, q, impl, {"error": info.get("error")})   # the answer first: what a modified object leads to ...
            if v:
                src = (sources or {}).get(fi, "bytesio")
                return (step, v[0] + (f" [{src.split('/')[0]} source]" if src != "bytesio" else ""), v[1])
            if side is None and not answers_only:
                v = judge(f, q, impl, info)         # ... then the modification itself
                if v:
                    side = (step, v[0], v[1])
    finally:
        for cl in cleanups:
            cl()
    return side


def session_json(files, q, order, container, sources=None):
    return {"session": {"files": [{"file": f["label"], "file_hex": f["raw"].hex(), "truth": truth_json(f)} for f in files],
                        "query": q_json(q), "order": list(order), "container": container,
                        "sources": {str(k): v for k, v in (sources or {}).items()}}}


def check_session(files, q, order, container="f64", sources=None):
    """None or a failing-input dict (minimised to the shortest prefix / pair of steps that still fails)"""
    r = run_session(files, q, order, container, sources=sources)
    if r is None:
        return None
    step, kind, obs = r
    order = list(order[:step + 1])
    fresh = run_session(files, q, order, container, shared=False, sources=sources, answers_only=True)
    note = " [same Bounds / level objects and readers re-used over several files and queries"
    if fresh is None:
        note += "; with fresh objects for every query every step is right]"
        # shortest history: one earlier step, then the failing one
        for i in dict.fromkeys(order[:-1]):
            two = [i, order[-1]]
            r2 = run_session(files, q, two, container, sources=sources)
            if r2 is not None and r2[0] == 1:
                order, (step, kind, obs) = two, r2
                break
        else:
            r1 = run_session(files, q, order[-1:], container, sources=sources)
            if r1 is not None:
                order, (step, kind, obs) = order[-1:], r1
    else:
        note += "]"
        r1 = run_session(files, q, order[-1:], container, sources=sources)
        if r1 is not None:
            order, (step, kind, obs) = order[-1:], r1
    used = sorted(set(order))
    remap = {fi: n for n, fi in enumerate(used)}
    sub_sources = {remap[k]: v for k, v in (sources or {}).items() if k in remap}
    suffix = " (objects re-used)" if len(order) > 1 else ""
    base, _, src_note = kind.partition(" [")
    kind = base + suffix + (" [" + src_note if src_note else "")
    return {"kind": kind, "input": session_json([files[i] for i in used], q, [remap[i] for i in order], container, sub_sources),
            "observed": f"step {step} (file {files[order[step]]['label']}): {obs}" + (note if len(order) > 1 else "")}


# ---- reader sessions: several queries on ONE reader; some of them are ABORTED (a malformed page reference, a transient
# ---- I/O fault of the source while a hierarchy page or a chunk is fetched - afterwards the source is healthy again); the
# ---- records returned by EARLIER queries are kept alive and looked at again after every later query
RS_SOURCES = ["flaky-bytesio", "flaky-bytesio", "flaky-bytesio", "flaky-plain", "flaky-plain", "http-queue/2", "http-queue/1",
              "http-executor/2", "with-path"]


def fault_handle(rd, source):
    if source.startswith("flaky"):
        return rd.source
    if source.startswith("http"):
        return WORLD.faults
    return None


def records_of(pts):
    raw = pts.array.tobytes()
    sz = pts.point_format.size
    return [raw[i * sz:(i + 1) * sz] for i in range(len(pts))]


def run_reader_session(f, steps, source="flaky-bytesio", scribble=()):
    """steps: [(query, fault)]; fault = None, or n: the n-th read operation / range request the query issues fails (once).
    scribble: indices of the steps whose returned record the caller overwrites (it is the caller's record).
    -> None, or (step index, kind, observed) of the first step where something is wrong"""
    try:
        rd, cleanup = open_reader(f["raw"], source)
    except Exception as ex:  # noqa
        return (0, "CopcReader cannot open the file", common.exc_kind(ex) + f" ({type(ex).__name__}: {ex})"[:200])
    fh = fault_handle(rd, source)
    kept = []
    aborted = []
    try:
        for i, (q, fault) in enumerate(steps):
            armed = fault is not None and fh is not None
            if armed:
                fh.arm(fault)
            info = {}
            try:
                impl = run_impl(rd, q, info=info)
            finally:
                fired = armed and fh.fired
                if armed:
                    fh.disarm()
            # the records handed out by the earlier queries are the caller's: a later query must not touch them
            for j, qj, pj, rj in kept:
                try:
                    now = records_of(pj)
                except Exception as ex:  # noqa
                    now = [common.exc_kind(ex)]
                if now != rj:
                    nd = sum(1 for a, b in zip(now, rj) if a != b) + abs(len(now) - len(rj))
                    return (i, "the record returned by an earlier query is changed by a later query on the same reader",
                            f"query {j + 1} {q_json(qj)} returned {len(rj)} points (right at that time); after query {i + 1} "
                            f"{q_json(q)} on the same reader {nd} of the points of that record are different "
                            f"(now {len(now)} points)")
            note = (f" [query {i + 1} on one reader ({source}); aborted before: "
                    + (", ".join(f"query {a + 1} ({why})" for a, why in aborted) or "none") + "]")
            after = (f" ({f['malformed']})" if f["malformed"] else "") + (" (after an aborted query on the same reader)" if aborted else "")
            if fired:
                if impl[0] == "ok":
                    return (i, "a failed read of the source does not surface as an exception",
                            f"read operation {fault} of the query failed (OSError / HTTP 503), the query returned {len(impl[1])} records" + note)
                if impl[1] == "LOOPS":
                    return (i, "query does not terminate after a failed read of the source", f"no answer within {WATCHDOG_S} s" + note)
                aborted.append((i, f"read {fault} failed: {impl[1]}"))
                continue
            v = judge(f, q, impl, info)
            if v:
                return (i, v[0] + (" (after an aborted query on the same reader)" if aborted else ""), v[1] + note)
            if impl[0] == "ok":
                fresh = run_impl(f["raw"], q)
                if fresh[0] != "ok" or fresh[1] != impl[1]:
                    return (i, "the answer differs from the answer of a fresh reader" + after,
                            f"reader in use: {len(impl[1])} records; fresh reader: "
                            + (fresh[1] if fresh[0] == "e" else f"{len(fresh[1])} records"
                               + ("" if sorted(fresh[1]) != sorted(impl[1]) else " (the same records in another order)")) + note)
                pts = info["points"]
                recs = impl[1]
                if i in scribble:
                    try:
                        pts.array.view(np.uint8)[...] = 0x5A
                        recs = records_of(pts)
                    except Exception:  # noqa: a record that cannot be written to is not judged here
                        pass
                kept.append((i, q, pts, recs))
            else:
                aborted.append((i, impl[1]))
    finally:
        cleanup()
    return None


def rs_json(f, steps, source, scribble):
    return {"reader_session": {"file": f["label"], "file_hex": f["raw"].hex(), "truth": truth_json(f), "source": source,
                               "steps": [{"query": q_json(q), "fault": fault} for q, fault in steps],
                               "scribble": sorted(scribble)}}


def check_reader_session(f, steps, source, scribble=()):
    """None or a failing-input dict, minimised to the shortest history that still shows the same kind"""
    r = run_reader_session(f, steps, source, scribble)
    if r is None:
        return None
    i, kind, obs = r
    steps = list(steps[:i + 1])
    scribble = {j for j in scribble if j <= i}
    best = (steps, scribble, r)
    alone = run_reader_session(f, steps[-1:], source, {0} if i in scribble else ())
    if alone is not None and alone[1] == kind:
        best = (steps[-1:], {0} if i in scribble else set(), alone)
    else:
        for j in range(i):
            two = [steps[j], steps[i]]
            sc = {n for n, idx in enumerate((j, i)) if idx in scribble}
            r2 = run_reader_session(f, two, source, sc)
            if r2 is not None and r2[1] == kind:
                best = (two, sc, r2)
                break
    steps, scribble, (i, kind, obs) = best
    return {"kind": kind, "input": rs_json(f, steps, source, scribble), "observed": f"step {i + 1}: {obs}"}


def gen_reader_session(rng, f, qs):
    """the queries of the case (and stepped level ranges) on one reader; in half of the sessions one or two queries are
    aborted by a transient fault of the source at their n-th read (hierarchy pages first, then the chunk ranges) and are
    mostly repeated right away; queries without a box (whose record is the decompression buffer itself) are mixed in so
    that results of every kind are alive while later queries run"""
    base = list(reversed(qs))
    if not f["malformed"]:
        if rng.random() < 0.5:
            base += [(None, ("T", 0, 6, 2)), (None, ("T", 1, 5, 3))]
        dmax = max(k[0] for k in f["keys"])
        for _ in range(rng.choice([1, 2, 3])):
            base.insert(rng.randrange(len(base) + 1), (None, rng.choice([("A",), ("I", rng.randrange(0, dmax + 1)), ("R", 0, max(1, dmax)),
                                                                        ("S", f["spacing"] / 2)])))
    else:
        base += [(None, ("A",)), (None, ("A",))]
        rng.shuffle(base)
    # malformed hierarchies through local sources only (what a server answers to a range beyond the end of the file is its own)
    source = rng.choice(RS_SOURCES if not f["malformed"] else ["flaky-bytesio", "flaky-plain", "with-path"])
    steps = []
    faulty = rng.random() < (0.5 if not f["malformed"] else 0.3)
    nf = 0
    for q in base:
        if faulty and nf < 2 and rng.random() < 0.3:
            n = rng.choice([0, 0, 1, 1, 2, 3, 5])
            steps.append((q, n))
            nf += 1
            if rng.random() < 0.7:
                steps.append((q, None))
        else:
            steps.append((q, None))
    if faulty and nf == 0:
        k = rng.randrange(len(steps))
        steps.insert(k, ((None, ("A",)), rng.choice([0, 1, 2])))
    scribble = {i for i in range(len(steps)) if rng.random() < 0.25}
    return steps, source, scribble


def search(ctx, seeds):
    laspy, C = _laspy()
    proxy()
    cases = _CASES if _CASES is not None else make_cases(ctx)
    failing = []
    seen = set()
    rng = ctx.rng

    def report(f, q, verdict, source=None):
        kind, obs = verdict
        base = kind.split(" [")[0]          # one failing input per class, whatever the source it was seen through
        if base in seen:
            return
        seen.add(base)
        inp = case_json(f, q)
        if source:
            inp["source"] = source
        failing.append({"kind": kind, "input": inp, "observed": obs})

    for f, qs in cases:
        if len(failing) >= 6:
            break
        # fresh reader per query
        for q in qs:
            v = check_one(f, q)
            if v:
                report(f, q, v)
        # one reader for a whole session (the hierarchy it has loaded is kept): stepped ranges, queries ABORTED by a malformed
        # page reference or by a transient fault of the source, earlier results kept alive (well-formed and malformed files)
        steps, rsrc, scribble = gen_reader_session(rng, f, qs)
        ctx.evaluations += len(steps)
        ctx.count("reader session: " + rsrc.split("/")[0] + (" (malformed hierarchy)" if f["malformed"] else ""))
        ctx.count("reader session: hierarchy in " + f.get("host", "?") + ", root page " + f.get("root_where", "?"))
        nfault = sum(1 for _q, fl in steps if fl is not None)
        if nfault:
            ctx.count("reader session with transient faults of the source", 1)
        try:
            bad = check_reader_session(f, steps, rsrc, scribble)
        except Exception as ex:  # noqa: what was found so far is kept
            import traceback
            ctx.notes.append("a reader session could not be judged: " + traceback.format_exc()[-600:])
            bad = {"kind": "reader session cannot be run", "input": rs_json(f, steps, rsrc, scribble),
                   "observed": f"{type(ex).__name__}: {ex}"[:300]}
        if bad and bad["kind"] not in seen:
            seen.add(bad["kind"])
            failing.append(bad)
        if not f["malformed"]:
            # the same queries through the other kinds of source: a file object without readinto, a path on disk, and
            # http (both strategies, 1..5 workers) - any chunk order must come back right whatever fetches the chunks
            for q in qs:
                src = rng.choice(SOURCES[1:])
                ctx.evaluations += 1
                ctx.count("source:" + src.split("/")[0])
                v = check_one(f, q, source=src)
                if v:
                    report(f, q, v, source=src)
    # the caller's objects and the readers re-used over several files and queries
    for files, q, order, container, srcs in (_SESSIONS or []):
        if len(failing) >= 6:
            break
        ctx.evaluations += len(order)
        ctx.count("session steps", len(order))
        try:
            bad = check_session(files, q, order, container, srcs)
        except Exception as ex:  # noqa: what was found so far is kept
            import traceback
            ctx.notes.append("a session could not be judged: " + traceback.format_exc()[-600:])
            bad = {"kind": "session cannot be run", "input": session_json(files, q, order, container, srcs),
                   "observed": f"{type(ex).__name__}: {ex}"[:300]}
        base = bad["kind"].split(" [")[0].replace(" (objects re-used)", "") if bad else None
        if bad and (base not in seen or "(objects re-used)" in bad["kind"]) and bad["kind"].split(" [")[0] not in seen:
            seen.add(base)
            seen.add(bad["kind"].split(" [")[0])
            failing.append(bad)
    return failing


def replay(ctx, data):
    fi = data.get("failing_input") or (data.get("disagreements") or [{}])[0]
    inp = fi.get("input")
    if not inp:
        print("nothing to replay")
        return 0
    if "reader_session" in inp:
        rs = inp["reader_session"]
        f = truth_from_json(rs["truth"], bytes.fromhex(rs["file_hex"]))
        f["label"] = rs["file"]
        steps = [(q_from_json(x["query"]), x["fault"]) for x in rs["steps"]]
        r = run_reader_session(f, steps, rs["source"], set(rs.get("scribble", [])))
        print("REPRODUCED:" if r else "not reproduced", r if r else "")
        return 1 if r else 0
    if "session" in inp:
        se = inp["session"]
        files = [truth_from_json(x["truth"], bytes.fromhex(x["file_hex"])) for x in se["files"]]
        for x, f in zip(se["files"], files):
            f["label"] = x["file"]
        r = run_session(files, q_from_json(se["query"]), se["order"], se["container"],
                        sources={int(k): v for k, v in se.get("sources", {}).items()})
        print("REPRODUCED:" if r else "not reproduced", r if r else "")
        return 1 if r else 0
    raw = bytes.fromhex(inp["file_hex"])
    f = truth_from_json(inp["truth"], raw)
    q = q_from_json(inp["query"])
    v = check_one(f, q, source=inp.get("source", "bytesio"))
    print("REPRODUCED:" if v else "not reproduced", v if v else "")
    return 1 if v else 0
