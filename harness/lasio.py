"""Conversions between laspy objects and the model driver's token syntax, and generators of
structured LAS inputs shared by several properties."""
import io
import struct
from datetime import date

import numpy as np

from harness import common

BY_RET = [f"number_of_points_by_return[{i}]" for i in range(15)]


def f64bits(x):
    return struct.unpack("<Q", struct.pack("<d", float(x)))[0]


def bits_f64(b):
    return struct.unpack("<d", struct.pack("<Q", b))[0]


def sbytes(s):
    if isinstance(s, str):
        return s.encode("ascii")
    return bytes(s)


def header_assoc(h, compressed=None):
    """LasHeader -> dict name -> int | bytes in the model's vocabulary."""
    from laspy._compression.format import uncompressed_id_to_compressed
    d = {}
    d["file_source_id"] = int(h.file_source_id)
    d["global_encoding"] = int(h.global_encoding.value)
    d["uuid"] = h.uuid.bytes_le
    d["version.major"] = int(h.version.major)
    d["version.minor"] = int(h.version.minor)
    d["system_identifier"] = sbytes(h.system_identifier)
    d["generating_software"] = sbytes(h.generating_software)
    cd = h.creation_date
    d["creation_yday"] = cd.timetuple().tm_yday if cd is not None else 0
    d["creation_year"] = cd.year if cd is not None else 0
    d["header_size"] = 0
    d["offset_to_point_data"] = int(h.offset_to_point_data)
    d["number_of_vlrs"] = len(h.vlrs)
    pid = h.point_format.id
    if h.are_points_compressed if compressed is None else compressed:
        pid = uncompressed_id_to_compressed(pid)
    d["point_format_id"] = int(pid)
    d["point_size"] = int(h.point_format.size)
    d["point_count"] = int(h.point_count)
    for i in range(15):
        d[BY_RET[i]] = int(h.number_of_points_by_return[i])
    for nm in ("scales", "offsets", "maxs", "mins"):
        arr = getattr(h, nm)
        for i in range(3):
            d[f"{nm}[{i}]"] = f64bits(arr[i])
    d["start_of_waveform"] = int(h.start_of_waveform_data_packet_record)
    d["start_of_first_evlr"] = int(h.start_of_first_evlr)
    d["number_of_evlrs"] = int(h.number_of_evlrs)
    d["extra_header_bytes"] = bytes(h.extra_header_bytes)
    d["extra_vlr_bytes"] = bytes(h.extra_vlr_bytes)
    return d


def assoc_tok(d):
    parts = []
    for k, v in d.items():
        parts.append(f"{k}={common.hexb(v) if isinstance(v, (bytes, bytearray)) else int(v)}")
    return "|".join(parts) if parts else "-"


def parse_assoc(tok):
    """token -> dict; later bindings override earlier ones (as aget does)."""
    d = {}
    if tok == "-":
        return d
    for e in tok.split("|"):
        k, v = e.split("=", 1)
        d[k] = common.unhex(v) if v.startswith("x") else int(v)
    return d


def vlr_tuple(v):
    return (sbytes(v.user_id), int(v.record_id), sbytes(v.description), bytes(v.record_data_bytes()))


def vlrs_tok(vl):
    ts = [vlr_tuple(v) if not isinstance(v, tuple) else v for v in vl]
    if not ts:
        return "-"
    return "|".join(f"{common.hexb(u)}:{r}:{common.hexb(d)}:{common.hexb(p)}" for u, r, d, p in ts)


def parse_vlrs(tok):
    if tok in ("-", ""):
        return []
    out = []
    for e in tok.split("|"):
        u, r, d, p = e.split(":")
        out.append((common.unhex(u), int(r), common.unhex(d), common.unhex(p)))
    return out


# ---------------------------------------------------------------------------------
# generators
# ---------------------------------------------------------------------------------
VERSIONS = ["1.1", "1.2", "1.3", "1.4"]
COMPAT = {"1.1": (0, 1), "1.2": (0, 1, 2, 3), "1.3": (0, 1, 2, 3, 4, 5), "1.4": tuple(range(11))}
PRINTABLE = [c for c in range(32, 127)]


def rand_ascii(rng, n, alphabet=PRINTABLE):
    return bytes(rng.choice(alphabet) for _ in range(n)).decode("ascii")


def rand_vlr(rng, max_payload=300, known_ok=False):
    import laspy
    uid_len = rng.choice([0, 1, 8, 15, 16, rng.randrange(17)])
    desc_len = rng.choice([0, 1, 31, 32, rng.randrange(33)])
    uid = rand_ascii(rng, uid_len)
    if not known_ok and uid in ("LASF_Spec", "LASF_Projection", "laszip encoded", "copc"):
        uid = "U" + uid[1:]
    n = rng.choice([0, 1, 2, rng.randrange(max_payload + 1)])
    return laspy.VLR(user_id=uid, record_id=rng.choice([0, 1, 4, 65535, rng.randrange(65536)]),
                     description=rand_ascii(rng, desc_len), record_data=bytes(rng.randrange(256) for _ in range(n)))


def rand_header(rng, version=None, fmt=None, nvlrs=None, extra_dims=0):
    """A LasHeader with boundary-biased field values."""
    import laspy
    import uuid
    version = version or rng.choice(VERSIONS)
    fmt = rng.choice(COMPAT[version]) if fmt is None else fmt
    h = laspy.LasHeader(version=version, point_format=fmt)
    h.file_source_id = rng.choice([0, 1, 65535, rng.randrange(65536)])
    h.global_encoding.value = rng.choice([0, 1, 0xFFFF, 0x8000, rng.randrange(65536)])
    h.uuid = uuid.UUID(bytes=bytes(rng.randrange(256) for _ in range(16)))
    h.system_identifier = rand_ascii(rng, rng.choice([0, 1, 31, 32, rng.randrange(33)]))
    h.generating_software = rand_ascii(rng, rng.choice([0, 1, 31, 32, rng.randrange(33)]))
    y = rng.choice([1, 4, 1900, 2000, 2020, 2023, 9999, rng.randrange(1, 10000)])
    h.creation_date = date(y, 1, 1) if rng.random() < 0.2 else (date(y, 12, 31) if rng.random() < 0.25 else date.fromordinal(date(y, 1, 1).toordinal() + rng.randrange(365)))
    sc = rng.choice([1e-9, 0.001, 0.01, 0.5, 1.0, 7.0, 1000.0])
    h.scales = np.array([sc, rng.choice([sc, 0.01, 0.25]), rng.choice([sc, 0.001, 2.0])])
    h.offsets = np.array([rng.choice([0.0, -1e9, 1e9, 123456.789, rng.uniform(-1e6, 1e6)]) for _ in range(3)])
    if rng.random() < 0.5:
        h.extra_header_bytes = bytes(rng.randrange(256) for _ in range(rng.choice([1, 3, 17])))
    if rng.random() < 0.4:
        h.extra_vlr_bytes = bytes(rng.randrange(256) for _ in range(rng.choice([1, 2, 9])))
    if version >= "1.3":
        h.start_of_waveform_data_packet_record = rng.choice([0, 1, 2 ** 64 - 1, rng.randrange(2 ** 64)])
    if rng.random() < 0.5:
        # stale statistics, as in a header taken from another file: the writer must reset them
        h.point_count = rng.choice([1, 7, 1000])
        h.maxs = np.array([rng.uniform(-1e5, 1e5) for _ in range(3)])
        h.mins = np.array([rng.uniform(-1e5, 1e5) for _ in range(3)])
        h.number_of_points_by_return = np.array([rng.randrange(5) for _ in range(15)], dtype=np.uint64)
        if version == "1.4":
            h.number_of_evlrs = rng.choice([1, 3])
            h.start_of_first_evlr = rng.choice([375, 1234, 99999])
    k = rng.choice([0, 0, 1, 2, 5]) if nvlrs is None else nvlrs
    for _ in range(k):
        h.vlrs.append(rand_vlr(rng))
    return h


def rand_points(rng, header, n, pattern=None):
    """A PackedPointRecord of n records for header.point_format with structured byte contents."""
    import laspy
    rec = laspy.PackedPointRecord.zeros(n, header.point_format)
    if n == 0:
        return rec
    size = rec.array.dtype.itemsize
    pattern = pattern or rng.choice(["random", "random", "ones", "small", "extremes"])
    if pattern == "random":
        raw = np.frombuffer(bytes(rng.getrandbits(8) for _ in range(n * size)), dtype=np.uint8).copy()
    elif pattern == "ones":
        raw = np.full(n * size, 0xFF, dtype=np.uint8)
    elif pattern == "small":
        raw = np.frombuffer(bytes(rng.choice([0, 0, 0, 1, 2, 255]) for _ in range(n * size)), dtype=np.uint8).copy()
    else:
        raw = np.frombuffer(bytes(rng.choice([0x00, 0x7F, 0x80, 0xFF]) for _ in range(n * size)), dtype=np.uint8).copy()
    rec.array = raw.view(rec.array.dtype).copy()
    return rec


def write_las(las_or_header, points=None, evlrs=None):
    """bytes produced by laspy for a one-shot write through LasWriter (uncompressed)."""
    import laspy
    bio = io.BytesIO()
    with laspy.LasWriter(bio, las_or_header, closefd=False) as w:
        if points is not None and len(points):
            w.write_points(points)
        if evlrs:
            w.write_evlrs(evlrs)
    return bio.getvalue()


def add_extra_dims(rng, h, k=None):
    """adds k random extra dimensions (30 element types, scaled or not, opaque byte arrays) to header h"""
    import laspy
    base = ["u1", "i1", "u2", "i2", "u4", "i4", "u8", "i8", "f4", "f8"]
    k = rng.choice([0, 0, 1, 2, 3]) if k is None else k
    for j in range(k):
        if rng.random() < 0.15:
            t = f"{rng.choice([4, 5, 7, 8, 9, 15, 16, 17, 24, 31, 32, 255])}u1"
            sc = None
        else:
            n = rng.choice([1, 1, 2, 3])
            t = (str(n) if n > 1 else "") + rng.choice(base)
            sc = n if rng.random() < 0.35 else None
        name = f"e{j}_" + rand_ascii(rng, rng.choice([0, 1, 5, 20, 32 - 3 - len(str(j))]), [c for c in range(97, 123)])
        name = name[:32]
        kw = {}
        if sc:
            if rng.random() < 0.2:      # neutral scaling is still a scaled dimension
                kw = dict(scales=np.ones(sc), offsets=np.zeros(sc))
            else:
                kw = dict(scales=np.array([rng.choice([0.5, 0.01, 2.0, 1.0]) for _ in range(sc)]),
                          offsets=np.array([rng.choice([0.0, 10.0, -3.5]) for _ in range(sc)]))
        h.add_extra_dim(laspy.ExtraBytesParams(name, t, description=rand_ascii(rng, rng.choice([0, 3, 31, 32]), [c for c in range(65, 91)]), **kw))
    if k and rng.random() < 0.4:
        # a user VLR AFTER the extra-bytes VLR: the order of the list must survive
        h.vlrs.append(rand_vlr(rng))
    return h


def with_gap(raw, gap, fill=0xAA):
    """the same LAS 1.4 file with `gap` unused bytes between its last point and its first EVLR (legal; laspy never writes it)"""
    if len(raw) < 375 or raw[25] < 4:
        return None
    st = int.from_bytes(raw[235:243], "little")
    nev = int.from_bytes(raw[243:247], "little")
    if nev == 0 or st == 0 or st > len(raw):
        return None
    out = bytearray(raw)
    out[st:st] = bytes([fill]) * gap
    out[235:243] = (st + gap).to_bytes(8, "little")
    return bytes(out)


def format_key(pf):
    """semantic identity of a point format, independent of PointFormat.__eq__"""
    return (pf.id, tuple((d.name, d.kind.name, d.num_bits, d.num_elements, None if d.scales is None else tuple(map(float, d.scales)),
                          None if d.offsets is None else tuple(map(float, d.offsets))) for d in pf.extra_dimensions))


def rec_bytes(rec):
    return bytes(np.ascontiguousarray(rec.array).tobytes())
