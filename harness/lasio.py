"""Conversions between laspy objects and the model driver's token syntax, and generators of
structured LAS inputs shared by several properties."""
import io
import struct
from datetime import date

import numpy as np

from harness import common

BY_RET = [f"number_of_points_by_return[{i}]" for i in range(15)]


def f64bits(x):
    return struct.unpack("<Q", struct.pack("<d", float(x)))[0]


def bits_f64(b):
    return struct.unpack("<d", struct.pack("<Q", b))[0]


def sbytes(s):
    if isinstance(s, str):
        return s.encode("ascii")
    return bytes(s)


def header_assoc(h, compressed=None):
    """LasHeader -> dict name -> int | bytes in the model's vocabulary."""
    from laspy._compression.format import uncompressed_id_to_compressed
    d = {}
    d["file_source_id"] = int(h.file_source_id)
    d["global_encoding"] = int(h.global_encoding.value)
    d["uuid"] = h.uuid.bytes_le
    d["version.major"] = int(h.version.major)
    d["version.minor"] = int(h.version.minor)
    d["system_identifier"] = sbytes(h.system_identifier)
    d["generating_software"] = sbytes(h.generating_software)
    cd = h.creation_date
    d["creation_yday"] = cd.timetuple().tm_yday if cd is not None else 0
    d["creation_year"] = cd.year if cd is not None else 0
    d["header_size"] = 0
    d["offset_to_point_data"] = int(h.offset_to_point_data)
    d["number_of_vlrs"] = len(h.vlrs)
    pid = h.point_format.id
    if h.are_points_compressed if compressed is None else compressed:
        pid = uncompressed_id_to_compressed(pid)
    d["point_format_id"] = int(pid)
    d["point_size"] = int(h.point_format.size)
    d["point_count"] = int(h.point_count)
    for i in range(15):
        d[BY_RET[i]] = int(h.number_of_points_by_return[i])
    for nm in ("scales", "offsets", "maxs", "mins"):
        arr = getattr(h, nm)
        for i in range(3):
            d[f"{nm}[{i}]"] = f64bits(arr[i])
    d["start_of_waveform"] = int(h.start_of_waveform_data_packet_record)
    d["start_of_first_evlr"] = int(h.start_of_first_evlr)
    d["number_of_evlrs"] = int(h.number_of_evlrs)
    d["extra_header_bytes"] = bytes(h.extra_header_bytes)
    d["extra_vlr_bytes"] = bytes(h.extra_vlr_bytes)
    return d


def assoc_tok(d):
    parts = []
    for k, v in d.items():
        parts.append(f"{k}={common.hexb(v) if isinstance(v, (bytes, bytearray)) else int(v)}")
    return "|".join(parts) if parts else "-"


def parse_assoc(tok):
    """token -> dict; later bindings override earlier ones (as aget does)."""
    d = {}
    if tok == "-":
        return d
    for e in tok.split("|"):
        k, v = e.split("=", 1)
        d[k] = common.unhex(v) if v.startswith("x") else int(v)
    return d


def vlr_tuple(v):
    return (sbytes(v.user_id), int(v.record_id), sbytes(v.description), bytes(v.record_data_bytes()))


def vlrs_tok(vl):
    ts = [vlr_tuple(v) if not isinstance(v, tuple) else v for v in vl]
    if not ts:
        return "-"
    return "|".join(f"{common.hexb(u)}:{r}:{common.hexb(d)}:{common.hexb(p)}" for u, r, d, p in ts)


def parse_vlrs(tok):
    if tok in ("-", ""):
        return []
    out = []
    for e in tok.split("|"):
        u, r, d, p = e.split(":")
        out.append((common.unhex(u), int(r), common.unhex(d), common.unhex(p)))
    return out


# ---------------------------------------------------------------------------------
# generators
# ---------------------------------------------------------------------------------
VERSIONS = ["1.1", "1.2", "1.3", "1.4"]
COMPAT = {"1.1": (0, 1), "1.2": (0, 1, 2, 3), "1.3": (0, 1, 2, 3, 4, 5), "1.4": tuple(range(11))}
PRINTABLE = [c for c in range(32, 127)]


def rand_ascii(rng, n, alphabet=PRINTABLE):
    return bytes(rng.choice(alphabet) for _ in range(n)).decode("ascii")


def rand_vlr(rng, max_payload=300, known_ok=False):
    import laspy
    uid_len = rng.choice([0, 1, 8, 15, 16, rng.randrange(17)])
    desc_len = rng.choice([0, 1, 31, 32, rng.randrange(33)])
    uid = rand_ascii(rng, uid_len)
    if not known_ok and uid in ("LASF_Spec", "LASF_Projection", "laszip encoded", "copc"):
        uid = "U" + uid[1:]
    n = rng.choice([0, 1, 2, rng.randrange(max_payload + 1)])
    return laspy.VLR(user_id=uid, record_id=rng.choice([0, 1, 4, 65535, rng.randrange(65536)]),
                     description=rand_ascii(rng, desc_len), record_data=bytes(rng.randrange(256) for _ in range(n)))


def rand_header(rng, version=None, fmt=None, nvlrs=None, extra_dims=0):
    """A LasHeader with boundary-biased field values."""
    import laspy
    import uuid
    version = version or rng.choice(VERSIONS)
    fmt = rng.choice(COMPAT[version]) if fmt is None else fmt
    h = laspy.LasHeader(version=version, point_format=fmt)
    h.file_source_id = rng.choice([0, 1, 65535, rng.randrange(65536)])
    h.global_encoding.value = rng.choice([0, 1, 0xFFFF, 0x8000, rng.randrange(65536)])
    h.uuid = uuid.UUID(bytes=bytes(rng.randrange(256) for _ in range(16)))
    h.system_identifier = rand_ascii(rng, rng.choice([0, 1, 31, 32, rng.randrange(33)]))
    h.generating_software = rand_ascii(rng, rng.choice([0, 1, 31, 32, rng.randrange(33)]))
    y = rng.choice([1, 4, 1900, 2000, 2020, 2023, 9999, rng.randrange(1, 10000)])
    h.creation_date = date(y, 1, 1) if rng.random() < 0.2 else (date(y, 12, 31) if rng.random() < 0.25 else date.fromordinal(date(y, 1, 1).toordinal() + rng.randrange(365)))
    sc = rng.choice([1e-9, 0.001, 0.01, 0.5, 1.0, 7.0, 1000.0])
    h.scales = np.array([sc, rng.choice([sc, 0.01, 0.25]), rng.choice([sc, 0.001, 2.0])])
    h.offsets = np.array([rng.choice([0.0, -1e9, 1e9, 123456.789, rng.uniform(-1e6, 1e6)]) for _ in range(3)])
    if rng.random() < 0.5:
        h.extra_header_bytes = bytes(rng.randrange(256) for _ in range(rng.choice([1, 3, 17])))
    if rng.random() < 0.4:
        h.extra_vlr_bytes = bytes(rng.randrange(256) for _ in range(rng.choice([1, 2, 9])))
    if version >= "1.3":
        h.start_of_waveform_data_packet_record = rng.choice([0, 1, 2 ** 64 - 1, rng.randrange(2 ** 64)])
    if rng.random() < 0.5:
        # stale statistics, as in a header taken from another file: the writer must reset them
        h.point_count = rng.choice([1, 7, 1000])
        h.maxs = np.array([rng.uniform(-1e5, 1e5) for _ in range(3)])
        h.mins = np.array([rng.uniform(-1e5, 1e5) for _ in range(3)])
        h.number_of_points_by_return = np.array([rng.randrange(5) for _ in range(15)], dtype=np.uint64)
        if version == "1.4":
            h.number_of_evlrs = rng.choice([1, 3])
            h.start_of_first_evlr = rng.choice([375, 1234, 99999])
    k = rng.choice([0, 0, 1, 2, 5]) if nvlrs is None else nvlrs
    for _ in range(k):
        h.vlrs.append(rand_vlr(rng))
    return h


def rand_points(rng, header, n, pattern=None):
    """A PackedPointRecord of n records for header.point_format with structured byte contents."""
    import laspy
    rec = laspy.PackedPointRecord.zeros(n, header.point_format)
    if n == 0:
        return rec
    size = rec.array.dtype.itemsize
    pattern = pattern or rng.choice(["random", "random", "ones", "small", "extremes"])
    if pattern == "random":
        raw = np.frombuffer(bytes(rng.getrandbits(8) for _ in range(n * size)), dtype=np.uint8).copy()
    elif pattern == "ones":
        raw = np.full(n * size, 0xFF, dtype=np.uint8)
    elif pattern == "small":
        raw = np.frombuffer(bytes(rng.choice([0, 0, 0, 1, 2, 255]) for _ in range(n * size)), dtype=np.uint8).copy()
    else:
        raw = np.frombuffer(bytes(rng.choice([0x00, 0x7F, 0x80, 0xFF]) for _ in range(n * size)), dtype=np.uint8).copy()
    rec.array = raw.view(rec.array.dtype).copy()
    return rec


def write_las(las_or_header, points=None, evlrs=None):
    """bytes produced by laspy for a one-shot write through LasWriter (uncompressed)."""
    import laspy
    bio = io.BytesIO()
    with laspy.LasWriter(bio, las_or_header, closefd=False) as w:
        if points is not None and len(points):
            w.write_points(points)
        if evlrs:
            w.write_evlrs(evlrs)
    return bio.getvalue()


def add_extra_dims(rng, h, k=None):
    """adds k random extra dimensions (30 element types, scaled or not, opaque byte arrays) to header h"""
    import laspy
    base = ["u1", "i1", "u2", "i2", "u4", "i4", "u8", "i8", "f4", "f8"]
    k = rng.choice([0, 0, 1, 2, 3]) if k is None else k
    for j in range(k):
        if rng.random() < 0.15:
            t = f"{rng.choice([4, 5, 7, 8, 9, 15, 16, 17, 24, 31, 32, 255])}u1"
            sc = None
        else:
            n = rng.choice([1, 1, 2, 3])
            t = (str(n) if n > 1 else "") + rng.choice(base)
            sc = n if rng.random() < 0.35 else None
        name = f"e{j}_" + rand_ascii(rng, rng.choice([0, 1, 5, 20, 32 - 3 - len(str(j))]), [c for c in range(97, 123)])
        name = name[:32]
        kw = {}
        if sc:
            if rng.random() < 0.2:      # neutral scaling is still a scaled dimension
                kw = dict(scales=np.ones(sc), offsets=np.zeros(sc))
            else:
                kw = dict(scales=np.array([rng.choice([0.5, 0.01, 2.0, 1.0]) for _ in range(sc)]),
                          offsets=np.array([rng.choice([0.0, 10.0, -3.5]) for _ in range(sc)]))
        h.add_extra_dim(laspy.ExtraBytesParams(name, t, description=rand_ascii(rng, rng.choice([0, 3, 31, 32]), [c for c in range(65, 91)]), **kw))
    if k and rng.random() < 0.4:
        # a user VLR AFTER the extra-bytes VLR: the order of the list must survive
        h.vlrs.append(rand_vlr(rng))
    return h


def with_gap(raw, gap, fill=0xAA):
    """the same LAS 1.4 file with `gap` unused bytes between its last point and its first EVLR (legal; laspy never writes it)"""
    if len(raw) < 375 or raw[25] < 4:
        return None
    st = int.from_bytes(raw[235:243], "little")
    nev = int.from_bytes(raw[243:247], "little")
    if nev == 0 or st == 0 or st > len(raw):
        return None
    out = bytearray(raw)
    out[st:st] = bytes([fill]) * gap
    out[235:243] = (st + gap).to_bytes(8, "little")
    return bytes(out)


def format_key(pf):
    """semantic identity of a point format, independent of PointFormat.__eq__"""
    return (pf.id, tuple((d.name, d.kind.name, d.num_bits, d.num_elements, None if d.scales is None else tuple(map(float, d.scales)),
                          None if d.offsets is None else tuple(map(float, d.offsets))) for d in pf.extra_dimensions))


def rec_bytes(rec):
    return bytes(np.ascontiguousarray(rec.array).tobytes())


# =================================================================================
# Round-4 additions (C03 / C06 / C19 group). Everything below is NEW: nothing above was changed.
# =================================================================================
ALL_PAIRS = [(v, f) for v in VERSIONS for f in COMPAT[v]]
LATIN1 = [0xE9, 0xE8, 0xFC, 0xDF, 0xA9, 0xB0, 0xFF, 0x80]     # bytes that are neither ASCII nor (alone) valid UTF-8


def _u(raw, pos, w):
    return int.from_bytes(raw[pos:pos + w], "little")


def parse_raw(raw):
    """the fixed header of a LAS file read straight from its bytes (no laspy code involved); ValueError when there is none"""
    if len(raw) < 227 or raw[:4] != b"LASF":
        raise ValueError("not a LAS header")
    minor = raw[25]
    need = {1: 227, 2: 227, 3: 235}.get(minor, 375)
    if len(raw) < need:
        raise ValueError("header cut short")
    d = {"major": raw[24], "minor": minor, "system_identifier": bytes(raw[26:58]), "generating_software": bytes(raw[58:90]),
         "header_size": _u(raw, 94, 2), "offset": _u(raw, 96, 4), "nvlrs": _u(raw, 100, 4), "fmt": raw[104] & 0x3F,
         "compressed": bool(raw[104] & 0xC0), "psize": _u(raw, 105, 2)}
    if minor >= 4:
        d["count"] = _u(raw, 247, 8)
        d["by_return"] = [_u(raw, 255 + 8 * i, 8) for i in range(15)]
        d["evlr_start"] = _u(raw, 235, 8)
        d["nevlrs"] = _u(raw, 243, 4)
    else:
        d["count"] = _u(raw, 107, 4)
        d["by_return"] = [_u(raw, 111 + 4 * i, 4) for i in range(5)]
        d["evlr_start"] = 0
        d["nevlrs"] = 0
    d["scales"] = [struct.unpack("<d", raw[131 + 8 * i:139 + 8 * i])[0] for i in range(3)]
    d["offsets"] = [struct.unpack("<d", raw[155 + 8 * i:163 + 8 * i])[0] for i in range(3)]
    d["maxs_bits"] = [_u(raw, 179 + 16 * i, 8) for i in range(3)]
    d["mins_bits"] = [_u(raw, 187 + 16 * i, 8) for i in range(3)]
    return d


def raw_vlr_block(raw):
    """bytes of the VLR area (header_size .. offset_to_point_data) of a file"""
    d = parse_raw(raw)
    return bytes(raw[d["header_size"]:d["offset"]])


def raw_walk_vlrs(raw, pos, n, extended):
    """(list of (user id, record id, description, payload), end position) of n records starting at pos; ValueError when cut short"""
    out = []
    hl, lw = (60, 8) if extended else (54, 2)
    for _ in range(n):
        if pos + hl > len(raw):
            raise ValueError("record header cut short")
        ln = _u(raw, pos + 20, lw)
        if pos + hl + ln > len(raw):
            raise ValueError("record payload cut short")
        out.append((bytes(raw[pos + 2:pos + 18]), _u(raw, pos + 18, 2), bytes(raw[pos + 20 + lw:pos + hl]), bytes(raw[pos + hl:pos + hl + ln])))
        pos += hl + ln
    return out, pos


def raw_records(raw):
    """bytes of the records the header announces (clamped to the file)"""
    d = parse_raw(raw)
    return bytes(raw[d["offset"]:d["offset"] + d["count"] * d["psize"]])


def raw_stats_problems(raw, trailing_ok=False):
    """C03's equalities recomputed exactly from the bytes of a file, with no laspy code in the loop: count = stored records,
    extrema = scaled exact integer extrema (bit patterns), per-return histogram (5 / 15 bins; 3-bit / 4-bit return number),
    offsets locate the point block and the EVLRs, file length = offset + count x record length + EVLR bytes.
    trailing_ok: bytes beyond the announced end are tolerated (sessions in which a failed low-level write left bytes behind)."""
    try:
        d = parse_raw(raw)
    except ValueError as ex:
        return [f"header: {ex}"]
    problems = []
    n, ps, off = d["count"], d["psize"], d["offset"]
    if ps < 20 or off < d["header_size"]:
        return [f"header: point size {ps} / offset {off} / header size {d['header_size']} make no sense"]
    end_pts = off + n * ps
    if end_pts > len(raw):
        return [f"point_count {n} but only {max(0, (len(raw) - off)) // ps} records are stored"]
    ev_bytes = 0
    if d["nevlrs"]:
        if d["evlr_start"] != end_pts:
            problems.append(f"start_of_first_evlr {d['evlr_start']} != offset {off} + {n} x {ps} = {end_pts}")
        try:
            _, e = raw_walk_vlrs(raw, d["evlr_start"], d["nevlrs"], True)
            ev_bytes = e - d["evlr_start"]
        except ValueError as ex:
            problems.append(f"number_of_evlrs {d['nevlrs']} but the records at {d['evlr_start']} are not there ({ex})")
    if (len(raw) < end_pts + ev_bytes) if trailing_ok else (len(raw) != end_pts + ev_bytes):
        problems.append(f"file length {len(raw)} != offset {off} + {n} x {ps} + EVLR bytes {ev_bytes} (point_count vs stored records)")
    try:
        vl, e = raw_walk_vlrs(raw[:off], d["header_size"], d["nvlrs"], False)
    except ValueError as ex:
        problems.append(f"offset_to_point_data {off}: the {d['nvlrs']} VLRs do not fit before it ({ex})")
    a = np.frombuffer(raw[off:end_pts], dtype=np.uint8).reshape(n, ps) if n else np.zeros((0, ps), dtype=np.uint8)
    for i, k in enumerate("XYZ"):
        if n:
            col = a[:, 4 * i:4 * i + 4].copy().view("<i4").ravel()
            mx = float(int(col.max())) * d["scales"][i] + d["offsets"][i]
            mn = float(int(col.min())) * d["scales"][i] + d["offsets"][i]
        else:
            mx = mn = 0.0
        if d["maxs_bits"][i] != f64bits(mx) or d["mins_bits"][i] != f64bits(mn):
            problems.append(f"{k} extrema header=({bits_f64(d['mins_bits'][i])!r},{bits_f64(d['maxs_bits'][i])!r}) exact=({mn!r},{mx!r})")
    mask = 0x0F if d["fmt"] >= 6 else 0x07
    rn = (a[:, 14] & mask) if n else np.zeros(0, dtype=np.uint8)
    bins = len(d["by_return"])
    hist = [int((rn == k).sum()) for k in range(1, bins + 1)]
    if hist != d["by_return"]:
        problems.append(f"points by return header={d['by_return']} exact={hist} (version 1.{d['minor']}, format {d['fmt']})")
    return problems


class LogStream2(io.BytesIO):
    """BytesIO recording every low-level write as (position, bytes); optional ONE-OFF fault: the `fail_at`-th write counted from
    arm() stores only its first `keep` bytes (keep may be a callable of the length) and raises OSError; later writes succeed."""

    def __init__(self, initial=b""):
        super().__init__(initial)
        self.trace = []
        self.fail_at = None
        self.keep = 0
        self.seen = 0
        self.fault = None          # (index in trace, position, bytes asked, bytes stored) once the fault happened
        self.min_len = 0           # only writes of at least this many bytes count as candidates

    def arm(self, fail_at, keep, min_len=0):
        self.fail_at, self.keep, self.seen, self.min_len = fail_at, keep, 0, min_len

    def write(self, b):
        b = bytes(b)
        if self.fail_at is not None and self.fault is None and len(b) >= self.min_len:
            i = self.seen
            self.seen += 1
            if i == self.fail_at:
                j = self.keep(len(b)) if callable(self.keep) else min(self.keep, len(b))
                pos = self.tell()
                self.trace.append((pos, b[:j]))
                super().write(b[:j])
                self.fault = (len(self.trace) - 1, pos, len(b), j)
                raise OSError(28, "No space left on device (harness: one-off torn write)")
        self.trace.append((self.tell(), b))
        return super().write(b)


def nonascii_bytes(rng, n):
    """n bytes, no NUL, at least one of them not ASCII (as software writing Latin-1 text would leave them)"""
    n = max(1, n)
    bs = bytearray(rng.choice(PRINTABLE) for _ in range(n))
    for _ in range(rng.choice([1, 1, 2, n])):
        bs[rng.randrange(n)] = rng.choice(LATIN1)
    return bytes(bs)


def make_nonascii(rng, h, where=None):
    """puts non-ASCII bytes into the header strings and / or the VLR descriptions of h (which laspy hands back as bytes when it
    reads such a file); returns the list of places touched"""
    import laspy
    where = where or rng.choice([("sysid",), ("software",), ("vlr",), ("sysid", "software", "vlr"), ("sysid", "vlr")])
    if "sysid" in where:
        h.system_identifier = nonascii_bytes(rng, rng.choice([1, 5, 31, 32]))
    if "software" in where:
        h.generating_software = nonascii_bytes(rng, rng.choice([1, 9, 32]))
    if "vlr" in where:
        if not len(h.vlrs) or rng.random() < 0.5:
            h.vlrs.append(laspy.VLR("U" + rand_ascii(rng, 3), rng.randrange(65536), "x", bytes(rng.randrange(256) for _ in range(rng.choice([0, 3, 20])))))
        plain = [i for i, v in enumerate(h.vlrs) if type(v).__name__ == "VLR"]
        forced = rng.choice(plain) if plain else None
        for i in plain:
            if i == forced or rng.random() < 0.6:
                v = h.vlrs[i]
                h.vlrs[i] = laspy.VLR(v.user_id, v.record_id, nonascii_bytes(rng, rng.choice([1, 7, 32])), v.record_data)
    return list(where)


def return_range(fmt):
    return 16 if fmt >= 6 else 8


def sweep_points(rng, header, n, start=0):
    """n records whose return numbers run through the WHOLE range the format can store (0..7 for formats 0-5, 0..15 for 6-10),
    the other bits of that byte random, coordinates spread over negative and positive values"""
    rec = rand_points(rng, header, n, pattern=rng.choice(["random", "small"]))
    if n == 0:
        return rec
    r = return_range(header.point_format.id)
    rn = (np.arange(n) + start) % r
    if rng.random() < 0.3:
        rn = np.array([rng.choice([0, 5, 6, 7, r - 1]) for _ in range(n)])
    bf = rec.array["bit_fields"].astype(np.uint8)
    rec.array["bit_fields"] = ((bf & (0xF0 if r == 16 else 0xF8)) | rn.astype(np.uint8)).astype(np.uint8)
    return rec


def describe_header(h):
    return {"version": str(h.version), "format": h.point_format.id, "vlrs": len(h.vlrs), "extra_dims": len(list(h.point_format.extra_dimensions)),
            "point_size": h.point_format.size}


def chunk_histogram(rec, fmt):
    """return-number histogram of a record's bytes, as a dict (for descriptions of failing inputs)"""
    if len(rec) == 0:
        return {}
    rn = np.atleast_1d(rec.array["bit_fields"]) & (0x0F if fmt >= 6 else 0x07)
    u, c = np.unique(rn, return_counts=True)
    return {int(a): int(b) for a, b in zip(u, c)}


# ---------------------------------------------------------------------------------
# writer sessions (own copy of the generator of harness/sessions.py, extended: how the writer is opened, return-number sweeps)
# ---------------------------------------------------------------------------------
WRITER_OPEN_VARIANTS = [
    ("class", {}), ("class", {"encoding_errors": "ignore"}), ("class", {"do_compress": False}), ("class", {"laz_backend": None}),
    ("open", {}), ("open", {"encoding_errors": "replace"}), ("open", {"encoding_errors": "ignore", "do_compress": False}),
    ("open", {"do_compress": False, "laz_backend": ()}), ("open", {"laz_backend": None}), ("open", {"do_compress": None}),
    ("open", {"closefd": True}), ("class", {"closefd": True}),
]


class KeepStream(io.BytesIO):
    """a BytesIO whose contents stay readable (getvalue) after it was closed: sessions run with closefd=True"""

    def __init__(self, initial=b""):
        super().__init__(initial)
        self._kept = None

    def close(self):
        if not self.closed:
            self._kept = super().getvalue()
        super().close()

    def getvalue(self):
        return self._kept if self.closed else super().getvalue()


def open_writer(dest, header, via="class", kwargs=None, closefd=False):
    import laspy
    kw = dict(kwargs or {})
    closefd = kw.pop("closefd", closefd)
    if via == "open":
        return laspy.open(dest, mode="w", header=header, closefd=closefd, **kw)
    return laspy.LasWriter(dest, header, closefd=closefd, **kw)


def foreign_points(rng, header, n):
    """records whose format differs from header's: another id, or the same id with other extra dimensions"""
    import laspy
    if rng.random() < 0.5:
        pf = laspy.PointFormat(rng.choice([i for i in range(11) if i != header.point_format.id]))
    else:
        pf = laspy.PointFormat(header.point_format.id)
        have = list(header.point_format.extra_dimensions)
        if have and rng.random() < 0.6:
            first = have[0]
            alt = {4: ["f4", "2u2", "i4", "u4"], 2: ["i2", "2u1", "u2"], 1: ["i1", "u1"], 8: ["f8", "2f4", "i8", "u8"]}.get(first.num_bits // 8)
            if alt:
                pf.add_extra_dimension(laspy.ExtraBytesParams(first.name + "x", rng.choice(alt)))
                for d in have[1:]:
                    pf.add_extra_dimension(laspy.ExtraBytesParams(d.name, d.dtype, scales=d.scales, offsets=d.offsets))
            else:
                pf.add_extra_dimension(laspy.ExtraBytesParams("zz", "u1"))
        else:
            pf.add_extra_dimension(laspy.ExtraBytesParams("zz", rng.choice(["u4", "f4", "2u2", "i4"])))
    return laspy.PackedPointRecord.zeros(n, pf)


def ws_gen(rng, thorough=False, with_extra=True, version=None, fmt=None, sweep=None, nonascii=None):
    """dict(header, ops=[('P', rec, same_format) | ('E', vlrlist) | ('C',)], open=(via, kwargs)); always ends with a close"""
    import laspy
    h = rand_header(rng, version=version, fmt=fmt)
    if with_extra and rng.random() < 0.35:
        add_extra_dims(rng, h)
    sweep = (rng.random() < 0.4) if sweep is None else sweep
    ops = []
    finished = False   # after the EVLRs were written or the writer closed, only write_points / close are exercised (a second
    #                    write_evlrs is outside the property's histories)
    for _ in range(rng.randrange(1, 8 if not thorough else 13)):
        r = rng.random()
        if finished and 0.76 <= r < 0.9:
            r = 0.5
        if r < 0.68:
            n = rng.choice([0, 0, 1, 2, 5, 17, 40])
            rec = sweep_points(rng, h, n, start=rng.randrange(16)) if sweep else rand_points(rng, h, n)
            if n and rng.random() < 0.18:
                small = rand_points(rng, h, n, pattern="small")
                for kx in "XYZ":
                    small.array[kx] = np.array([rng.randrange(-50000, 50000) for _ in range(n)], dtype=np.int32)
                rec = laspy.ScaleAwarePointRecord(small.array, small.point_format, np.array(h.scales) * rng.choice([1.0, 2.0, 0.5]),
                                                  np.array(h.offsets) + rng.choice([0.0, 1.0, -2.0]))
            elif n == 1 and rng.random() < 0.4:
                rec = rec[0]
            ops.append(("P", rec, True))
        elif r < 0.76:
            ops.append(("P", foreign_points(rng, h, rng.choice([0, 1, 3])), False))
        elif r < 0.9:
            evl = laspy.vlrs.vlrlist.VLRList([rand_vlr(rng) for _ in range(rng.choice([0, 1, 2]))])
            ops.append(("E", evl))
            finished = finished or (len(evl) > 0 and h.version.minor >= 4)
        else:
            ops.append(("C",))
            finished = True
    ops.append(("C",))
    how = rng.choice(WRITER_OPEN_VARIANTS)
    if nonascii is None:
        nonascii = rng.random() < 0.12
    if nonascii:
        # header strings / VLR descriptions that are not ASCII, as bytes (what laspy hands back when it reads such a file): they can only be
        # written with a lenient encoding_errors, which must change nothing else
        make_nonascii(rng, h)
        how = (how[0], dict(how[1], encoding_errors=rng.choice(["ignore", "replace"])))
    return {"header": h, "ops": ops, "open": how}


def ws_run(sess, stream=None):
    """executes on laspy; returns (outs, final bytes, per-op (bytes before == bytes after) flags, stream)"""
    bio = stream if stream is not None else KeepStream()
    h = sess["header"]
    via, kw = sess.get("open", ("class", {}))
    try:
        w = open_writer(bio, h, via, kw)
    except Exception as ex:
        return (["open-err:" + common.exc_kind(ex)], bio.getvalue(), [], bio)
    outs, unchanged = [], []
    for op in sess["ops"]:
        before = bio.getvalue()
        try:
            if op[0] == "P":
                w.write_points(op[1])
            elif op[0] == "E":
                w.write_evlrs(op[1])
            else:
                w.close()
            outs.append("ok")
        except Exception as ex:
            outs.append("err:" + common.exc_kind(ex))
        unchanged.append(before == bio.getvalue())
    return outs, bio.getvalue(), unchanged, bio


def ws_rescaled(sess):
    h = sess["header"]
    for op in sess["ops"]:
        if op[0] == "P" and hasattr(op[1], "scales") and len(op[1]) and (np.any(op[1].scales != h.scales) or np.any(op[1].offsets != h.offsets)):
            return True
    return False


def ws_cmd(sess, ops=None):
    """the model driver's wrun command for a writer session (a foreign chunk is fed as zero-filled records: only its emptiness matters)"""
    h = sess["header"]
    d = header_assoc(h)
    toks = []
    for op in (sess["ops"] if ops is None else ops):
        if op[0] == "P":
            same = format_key(op[1].point_format) == format_key(h.point_format)
            data = rec_bytes(op[1]) if same else bytes(len(op[1]) * h.point_format.size)
            toks.append("P" + ("T" if same else "F") + common.hexb(data))
        elif op[0] == "E":
            toks.append("E" + vlrs_tok(op[1]))
        else:
            toks.append("C")
    return f"wrun {assoc_tok(d)} {vlrs_tok(h.vlrs)} {h.point_format.id} {h.point_format.size} " + " ".join(toks)


def ws_describe(s):
    d = describe_header(s["header"])
    d["open"] = [s.get("open", ("class", {}))[0], {k: repr(v) for k, v in s.get("open", ("class", {}))[1].items()}]
    d["ops"] = [(o[0] + (str(len(o[1])) + ("" if o[0] != "P" or o[2] else "!fmt")) if o[0] != "C" else "C") for o in s["ops"]]
    if "origin_first" in s:
        d["first_chunks_at_the_origin"] = s["origin_first"]
    return d


def ws_accepted(sess, outs):
    """bytes of the chunks the writer accepted (not differently scaled ones: None then), and whether all were plain"""
    pts = b""
    for op, o in zip(sess["ops"], outs):
        if op[0] == "P" and o == "ok" and op[2]:
            pts += rec_bytes(op[1])
    return pts


# ---------------------------------------------------------------------------------
# ensembles: several writers / appenders / LasData alive at the same time, all built from ONE header object
# ---------------------------------------------------------------------------------
def fingerprint(h):
    """everything a writer / appender given this header must leave alone"""
    return (repr(sorted(header_assoc(h).items())), [vlr_tuple(v) for v in h.vlrs], format_key(h.point_format))


def ens_gen(rng, thorough=False, version=None, fmt=None, kinds=None):
    """dict(header, header0 (a private deep copy taken now), parts=[{kind, ...}], ops=[(participant, op)]).
    kinds: 'writer' (LasWriter), 'open-w' (laspy.open mode w), 'appender' (laspy.open mode a on a file written from the header),
    'lasdata' (LasData(header): assignments of points, written at its close). Ops of one participant: P* then at most one E, a C; writers
    also get P after E / after C (must be refused). The SAME record object may be handed to several participants."""
    import copy
    import laspy
    from laspy.vlrs.vlrlist import VLRList
    h = rand_header(rng, version=version, fmt=fmt)
    if rng.random() < 0.25:
        add_extra_dims(rng, h)
    k = rng.choice([2, 2, 3, 4])
    if kinds is None:
        kinds = [rng.choice(["writer", "open-w", "writer", "appender", "lasdata"]) for _ in range(k)]
        if rng.random() < 0.6:
            kinds[0], kinds[1] = rng.choice(["writer", "open-w"]), rng.choice(["writer", "open-w"])
    else:
        kinds = [rng.choice(kinds) for _ in range(k)]
    parts = []
    for kd in kinds:
        p = {"kind": kd}
        if kd == "appender":
            p["orig"] = sweep_points(rng, h, rng.choice([0, 1, 4, 9]))
            p["orig_evl"] = VLRList([rand_vlr(rng, 60) for _ in range(rng.choice([1, 2]))]) if (h.version.minor >= 4 and rng.random() < 0.6) else None
        parts.append(p)
    pool = [sweep_points(rng, h, rng.choice([1, 2, 5, 11]), start=rng.randrange(16)) for _ in range(3)]
    state = ["open"] * k           # open -> evlrs -> closed
    ops = []
    for _ in range(rng.randrange(3, 10 if not thorough else 18)):
        i = rng.randrange(k)
        kd = kinds[i]
        r = rng.random()
        if state[i] == "closed" and kd in ("appender", "lasdata"):
            continue
        if r < 0.74:
            rec = rng.choice(pool) if rng.random() < 0.6 else sweep_points(rng, h, rng.choice([0, 1, 3, 8]), start=rng.randrange(16))
            ops.append((i, ("P", rec)))
        elif r < 0.86:
            if kd in ("writer", "open-w") and state[i] == "open" and h.version.minor >= 4:
                ops.append((i, ("E", VLRList([rand_vlr(rng, 60) for _ in range(rng.choice([1, 2]))]))))
                state[i] = "evlrs"
        else:
            ops.append((i, ("C",)))
            state[i] = "closed"
    return {"header": h, "header0": copy.deepcopy(h), "parts": parts, "ops": ops}


def _ens_apply(obj, kind, op, st):
    """one op on one participant; st = its bookkeeping dict(accepted=[rec bytes], evl, last, closed)"""
    if kind == "lasdata":
        if op[0] == "P":
            if len(op[1].array.shape) == 0:
                return "skip"
            obj["las"].points = op[1]
        elif op[0] == "C":
            st["accepted"] = [rec_bytes(obj["las"].points)]      # what the object holds when it is written
            obj["las"].write(obj["bio"])
            st["closed"] = True
        return "ok"
    if op[0] == "P":
        (obj["w"].append_points if kind == "appender" else obj["w"].write_points)(op[1])
        if len(op[1]):
            st["accepted"].append(rec_bytes(op[1]))
    elif op[0] == "E":
        obj["w"].write_evlrs(op[1])
        st["evl"] = op[1]
    else:
        obj["w"].close()
        st["closed"] = True
    return "ok"


def ens_make(kind, h, part):
    import laspy
    bio = io.BytesIO()
    if kind == "writer":
        return {"bio": bio, "w": laspy.LasWriter(bio, h, closefd=False)}
    if kind == "open-w":
        return {"bio": bio, "w": laspy.open(bio, mode="w", header=h, closefd=False)}
    if kind == "appender":
        bio = io.BytesIO(write_las(h, part["orig"], part["orig_evl"]))
        return {"bio": bio, "w": laspy.open(bio, mode="a", closefd=False)}
    return {"bio": bio, "las": laspy.LasData(header=h)}


def ens_run(ens, isolated=False):
    """runs the ensemble on laspy. isolated=False: every participant is created from the ONE header object, then the ops are
    interleaved as generated. isolated=True: the reference - each participant alone, from its own deep copy of the original header, its
    own ops in order. Returns dict(files=[bytes], outs=[[...]], accepted=[bytes], header_touched=bool, error=None|str)"""
    import copy
    parts, ops = ens["parts"], ens["ops"]
    k = len(parts)
    res = {"files": [None] * k, "outs": [[] for _ in range(k)], "accepted": [b""] * k, "evl": [None] * k, "header_touched": False, "error": None}
    order = [[(i, op) for i, op in ops]] if not isolated else [[(i, op) for i, op in ops if i == j] for j in range(k)]
    h = ens["header"] if not isolated else None
    objs, sts = [None] * k, [None] * k
    try:
        before = fingerprint(ens["header"]) if not isolated else None
        for j, p in enumerate(parts):
            hj = h if not isolated else copy.deepcopy(ens["header0"])
            objs[j] = ens_make(p["kind"], hj, p)
            sts[j] = {"accepted": [rec_bytes(p["orig"])] if p["kind"] == "appender" and len(p["orig"]) else [], "evl": p.get("orig_evl"), "closed": False}
        for seq in order:
            for i, op in seq:
                try:
                    o = _ens_apply(objs[i], parts[i]["kind"], op, sts[i])
                except Exception as ex:
                    o = "err:" + common.exc_kind(ex)
                res["outs"][i].append(o)
        for j, p in enumerate(parts):
            if not sts[j]["closed"]:
                try:
                    _ens_apply(objs[j], p["kind"], ("C",), sts[j])
                except Exception as ex:
                    res["outs"][j].append("close-err:" + common.exc_kind(ex))
            res["files"][j] = objs[j]["bio"].getvalue()
            res["accepted"][j] = b"".join(sts[j]["accepted"])
            res["evl"][j] = sts[j]["evl"]
        if not isolated and not any(p["kind"] == "lasdata" for p in parts):
            res["header_touched"] = fingerprint(ens["header"]) != before
    except Exception as ex:
        res["error"] = f"{type(ex).__name__}: {ex}"
    return res


def ens_describe(ens):
    d = describe_header(ens["header0"])
    d["participants"] = [p["kind"] + (f"(orig {len(p['orig'])} pts, {len(p['orig_evl'] or [])} evlrs)" if p["kind"] == "appender" else "") for p in ens["parts"]]
    fmt = ens["header0"].point_format.id
    d["ops"] = [f"{i}:{op[0]}" + (f"{len(op[1])}@{id(op[1]) % 1000}{chunk_histogram(op[1], fmt)}" if op[0] == "P" else (str(len(op[1])) if op[0] == "E" else "")) for i, op in ens["ops"]]
    return d


def fingerprint_has_bytes(h):
    """True when a header string or a VLR description of h is a bytes object (non-ASCII text read from a file): such a header can
    only be written with a lenient encoding_errors"""
    if isinstance(h.system_identifier, bytes) or isinstance(h.generating_software, bytes):
        return True
    return any(isinstance(getattr(v, "description", ""), bytes) for v in h.vlrs)


# =================================================================================
# Round-5 additions (C03 / C06 / C19 group). Everything below is NEW; LogStream2 above only gained attributes with defaults
# (the exception a fault raises, a log of truncations).
# =================================================================================
import contextlib as _contextlib
import errno as _errno
import os as _os

# what a failing low-level write raises: every errno class an OSError can carry (Python maps EAGAIN / EWOULDBLOCK to BlockingIOError,
# EINTR to InterruptedError, ETIMEDOUT to TimeoutError), a BlockingIOError that says how many characters it wrote, and exceptions that
# are not OSErrors at all (a closed file raises ValueError; an allocation failing inside the destination raises MemoryError)
FAULT_EXCS = {
    "ENOSPC": lambda j: OSError(_errno.ENOSPC, "No space left on device (harness: one-off torn write)"),
    "EIO": lambda j: OSError(_errno.EIO, "Input/output error (harness: one-off torn write)"),
    "EAGAIN": lambda j: OSError(_errno.EAGAIN, "Resource temporarily unavailable (harness: one-off torn write)"),
    "EWOULDBLOCK": lambda j: OSError(_errno.EWOULDBLOCK, "Operation would block (harness: one-off torn write)"),
    "EINTR": lambda j: OSError(_errno.EINTR, "Interrupted system call (harness: one-off torn write)"),
    "ETIMEDOUT": lambda j: OSError(_errno.ETIMEDOUT, "Connection timed out (harness: one-off torn write)"),
    "BlockingIOError": lambda j: BlockingIOError(_errno.EAGAIN, "write could not complete without blocking (harness)", j),
    "EPIPE": lambda j: OSError(_errno.EPIPE, "Broken pipe (harness: one-off torn write)"),
    "ValueError": lambda j: ValueError("I/O operation on closed file (harness: one-off torn write)"),
    "MemoryError": lambda j: MemoryError("harness: one-off torn write"),
}
FAULT_EXC_NAMES = list(FAULT_EXCS)


def make_fault_exc(name, stored):
    return FAULT_EXCS[name or "ENOSPC"](stored)


class LogStream3(LogStream2):
    """LogStream2 that (a) raises the exception class asked for (`exc`: a key of FAULT_EXCS) when its one-off fault fires, (b) also records
    truncations: `ops` is the whole history [('W', position, bytes) | ('T', size)], `trace` stays the list of writes"""

    def __init__(self, initial=b""):
        super().__init__(initial)
        self.ops = []
        self.exc = None
        self.raised = None         # the exception object the fault raised

    def arm(self, fail_at, keep, min_len=0, exc=None):
        super().arm(fail_at, keep, min_len)
        self.exc = exc

    def write(self, b):
        b = bytes(b)
        pos = self.tell()
        try:
            n = super().write(b)
        except OSError:
            # the one-off fault of LogStream2 (always an OSError(ENOSPC) there): re-raised as the class asked for
            if self.fault is not None and self.raised is None and self.fault[1] == pos:
                self.ops.append(("W", pos, b[:self.fault[3]]))
                self.raised = make_fault_exc(self.exc, self.fault[3])
                raise self.raised from None
            raise
        self.ops.append(("W", pos, b))
        return n

    def truncate(self, size=None):
        size = self.tell() if size is None else size
        self.ops.append(("T", size))
        return super().truncate(size)


def apply_ops(base, ops, k, j=0):
    """the destination after the first k operations of `ops` (('W', pos, bytes) | ('T', size)) applied to `base`, and the first j bytes of
    operation k when that is a write (a torn write / a crash inside it)"""
    buf = bytearray(base)

    def wr(pos, bs):
        if pos > len(buf):
            buf.extend(b"\0" * (pos - len(buf)))
        buf[pos:pos + len(bs)] = bs
    for op in ops[:k]:
        if op[0] == "W":
            wr(op[1], op[2])
        elif op[1] <= len(buf):
            del buf[op[1]:]
        else:
            buf.extend(b"\0" * (op[1] - len(buf)))
    if k < len(ops) and j and ops[k][0] == "W":
        wr(ops[k][1], ops[k][2][:j])
    return bytes(buf)


class LogFile:
    """stands between laspy and the file object the builtin open() returned for a PATH laspy was asked to write to (LasData.write(path),
    laspy.open(path, mode='w' / 'a')): records the mode the path was opened with, what the path held right after that open (`initial`:
    empty when the mode truncates), and every write / truncate issued; can make one write fail like LogStream3"""

    def __init__(self, real, path, mode, initial):
        self._f, self.path, self.mode, self.initial = real, path, mode, initial
        self.ops = []
        self.fail_at, self.keep, self.seen, self.min_len, self.exc = None, 0, 0, 0, None
        self.fault = None
        self.raised = None

    def arm(self, fail_at, keep, min_len=0, exc=None):
        self.fail_at, self.keep, self.seen, self.min_len, self.exc = fail_at, keep, 0, min_len, exc

    def write(self, b):
        b = bytes(b)
        pos = self._f.tell()
        if self.fail_at is not None and self.fault is None and len(b) >= self.min_len:
            i = self.seen
            self.seen += 1
            if i == self.fail_at:
                j = self.keep(len(b)) if callable(self.keep) else min(self.keep, len(b))
                self.ops.append(("W", pos, b[:j]))
                self._f.write(b[:j])
                self.fault = (len(self.ops) - 1, pos, len(b), j)
                self.raised = make_fault_exc(self.exc, j)
                raise self.raised
        self.ops.append(("W", pos, b))
        return self._f.write(b)

    def truncate(self, size=None):
        self.ops.append(("T", self._f.tell() if size is None else size))
        return self._f.truncate(size)

    def __getattr__(self, name):
        return getattr(self._f, name)

    def __enter__(self):
        return self

    def __exit__(self, *a):
        self._f.close()
        return False


@_contextlib.contextmanager
def intercept_open(path, arm=None):
    """while active, the builtin open() of `path` for writing returns a LogFile around the real file object (every other open is untouched);
    yields the list of LogFiles made. This instruments the boundary between laspy and the operating system, not laspy."""
    import builtins
    real = builtins.open
    target = _os.path.realpath(_os.fspath(path))
    made = []

    def fake(file, mode="r", *a, **k):
        f = real(file, mode, *a, **k)
        try:
            same = isinstance(file, (str, bytes, _os.PathLike)) and _os.path.realpath(_os.fspath(file)) == target
        except Exception:
            same = False
        if not same or not any(c in mode for c in "wa+x"):
            return f
        with real(target, "rb") as g:
            initial = g.read()
        lf = LogFile(f, target, mode, initial)
        if arm:
            lf.arm(*arm)
        made.append(lf)
        return lf
    builtins.open = fake
    try:
        yield made
    finally:
        builtins.open = real


class SparseFile:
    """a seekable binary file object that stores only what was written: unwritten ranges read as zeros (like a sparse file on disk).
    Lets a file of 2**32 - 1 twenty-byte records exist without its 80 GB. A single read of more than `max_read` bytes raises MemoryError
    (nothing may try to load the point block)."""

    def __init__(self, max_read=1 << 26):
        self.ext = []            # sorted, disjoint, non-adjacent [start, bytearray]
        self.size = 0
        self.pos = 0
        self.closed = False
        self.max_read = max_read
        self.nwrites = 0

    def seekable(self):
        return True

    def readable(self):
        return True

    def writable(self):
        return True

    def _check(self):
        if self.closed:
            raise ValueError("I/O operation on closed file.")

    def seek(self, off, whence=0):
        self._check()
        p = off if whence == 0 else (self.pos + off if whence == 1 else self.size + off)
        if p < 0:
            raise ValueError(f"negative seek value {p}")
        self.pos = p
        return p

    def tell(self):
        self._check()
        return self.pos

    def read_at(self, pos, n):
        n = max(0, min(n, self.size - pos))
        if n > self.max_read:
            raise MemoryError(f"harness: a single read of {n} bytes of a sparse file")
        out = bytearray(n)
        for s, d in self.ext:
            lo, hi = max(s, pos), min(s + len(d), pos + n)
            if lo < hi:
                out[lo - pos:hi - pos] = d[lo - s:hi - s]
        return bytes(out)

    def read(self, n=-1):
        self._check()
        if n is None or n < 0:
            n = max(0, self.size - self.pos)
        data = self.read_at(self.pos, n)
        self.pos += len(data)
        return data

    def readinto(self, b):
        data = self.read(len(b))
        b[:len(data)] = data
        return len(data)

    def write(self, b):
        self._check()
        b = bytes(b)
        if not b:
            return 0
        self.nwrites += 1
        lo, hi = self.pos, self.pos + len(b)
        keep, merged_lo, merged = [], lo, None
        for s, d in self.ext:
            if s + len(d) < lo or s > hi:
                keep.append([s, d])
            else:
                nlo, nhi = min(s, merged_lo if merged is not None else lo), max(s + len(d), hi if merged is None else merged_lo + len(merged))
                buf = bytearray(nhi - nlo)
                if merged is not None:
                    buf[merged_lo - nlo:merged_lo - nlo + len(merged)] = merged
                buf[s - nlo:s - nlo + len(d)] = d
                merged_lo, merged = nlo, buf
        if merged is None:
            merged_lo, merged = lo, bytearray(len(b))
        elif merged_lo > lo or merged_lo + len(merged) < hi:
            nlo, nhi = min(merged_lo, lo), max(merged_lo + len(merged), hi)
            buf = bytearray(nhi - nlo)
            buf[merged_lo - nlo:merged_lo - nlo + len(merged)] = merged
            merged_lo, merged = nlo, buf
        merged[lo - merged_lo:hi - merged_lo] = b
        keep.append([merged_lo, merged])
        keep.sort(key=lambda e: e[0])
        self.ext = keep
        self.pos = hi
        self.size = max(self.size, hi)
        return len(b)

    def truncate(self, size=None):
        self._check()
        size = self.pos if size is None else size
        ext = []
        for s, d in self.ext:
            if s < size:
                ext.append([s, d[:size - s]])
        self.ext = ext
        self.size = size
        return size

    def flush(self):
        pass

    def close(self):
        self.closed = True

    def __enter__(self):
        return self

    def __exit__(self, *a):
        self.close()

    def snapshot(self):
        return (self.size, tuple((s, bytes(d)) for s, d in self.ext))


def legacy_count_field(minor, fmt, count):
    """what the 4-byte legacy point count of a header must hold"""
    if minor >= 4 and (fmt >= 6 or count > 2 ** 32 - 1):
        return 0
    return count


def make_sparse_las(h, count, evl=None):
    """(SparseFile, header bytes) - a LEGAL file of `count` records that are all zero bytes, without its point block: the header is the one
    laspy writes for one zero record (extrema = the offsets, empty return histogram: exact for any number of zero records) with the point count
    (and the EVLR pointer) set to `count`; the EVLRs sit at offset + count x record length"""
    import laspy
    one = laspy.PackedPointRecord.zeros(1, h.point_format)
    raw = write_las(h, one, evl)
    d = parse_raw(raw)
    off, ps, minor = d["offset"], d["psize"], d["minor"]
    head = bytearray(raw[:off])
    head[107:111] = legacy_count_field(minor, d["fmt"], count).to_bytes(4, "little")
    if minor >= 4:
        head[247:255] = count.to_bytes(8, "little")
    ev = raw[off + ps:]
    if minor >= 4 and d["nevlrs"]:
        head[235:243] = (off + count * ps).to_bytes(8, "little")
    sp = SparseFile()
    sp.write(bytes(head))
    if ev:
        sp.seek(off + count * ps)
        sp.write(ev)
    sp.size = max(sp.size, off + count * ps + len(ev))
    sp.seek(0)
    return sp, bytes(head), raw


def bulk_points(rng, h, n, small_coords=False):
    """n records, all distinct (a counter in X), random other bytes, cheap to build for large n"""
    import laspy
    rec = laspy.PackedPointRecord.zeros(n, h.point_format)
    ps = rec.array.dtype.itemsize
    raw = np.frombuffer(rng.randbytes(n * ps), dtype=np.uint8).copy()
    rec.array = raw.view(rec.array.dtype).copy()
    rec.array["X"] = (np.arange(n, dtype=np.int64) + rng.randrange(1 << 20)).astype(np.int32)
    if small_coords:
        rec.array["Y"] = rec.array["Y"] >> 12
        rec.array["Z"] = rec.array["Z"] >> 12
    return rec


# lengths at which block-wise copies / chunked rewrites change behaviour: exact multiples of 2**16 and their neighbours, and one beyond 2**20
BIG_LENGTHS = [1 << 16, (1 << 16) + 1, (1 << 17) - 1, 1 << 17, (1 << 17) + 1, 3 << 16, 1 << 18, (1 << 20) + 1]
BIG_SHAPES = ["[::2]", "[::-1]", "[1::2]", "[::3]", "fancy", "mask", "whole", "[::-2]"]


def big_selection(rng, h, length, shape):
    """(base record, selection of exactly `length` records of it made the way `shape` says, bytes the selection must be stored as).
    '[::2]' & co. are non-contiguous views of the base record; 'fancy' / 'mask' are numpy copies; 'whole' is the base itself."""
    if shape in ("[::2]", "[1::2]", "[::-2]"):
        base = bulk_points(rng, h, 2 * length + (1 if shape == "[1::2]" else 0))
        sel = {"[::2]": base[::2], "[1::2]": base[1::2], "[::-2]": base[::-2]}[shape]
    elif shape == "[::3]":
        base = bulk_points(rng, h, 3 * length - 2)
        sel = base[::3]
    elif shape == "[::-1]":
        base = bulk_points(rng, h, length)
        sel = base[::-1]
    elif shape == "fancy":
        base = bulk_points(rng, h, length + 7)
        ix = np.arange(length, dtype=np.int64)[::-1] + rng.randrange(8)
        sel = base[ix]
    elif shape == "mask":
        base = bulk_points(rng, h, length + 5)
        mk = np.ones(length + 5, dtype=bool)
        mk[[rng.randrange(length + 5) for _ in range(40)]] = False
        extra = (length + 5) - int(mk.sum()) - 5
        # exactly `length` records selected: switch bits back on / off until the count is right
        idx_off = np.flatnonzero(~mk)
        mk[idx_off[:len(idx_off) - 5]] = True
        sel = base[mk]
    else:
        base = bulk_points(rng, h, length)
        sel = base
    assert len(sel) == length, (shape, len(sel), length)
    return base, sel, rec_bytes(sel)


def small_header(rng, version=None, fmt=None):
    """a header for sessions with very many points: a format with short records, few VLRs"""
    version = version or rng.choice(VERSIONS)
    fmt = rng.choice([f for f in COMPAT[version] if f in (0, 1, 2, 6)]) if fmt is None else fmt
    return rand_header(rng, version=version, fmt=fmt, nvlrs=rng.choice([0, 1]))


# =================================================================================
# Round-6 additions (C03 / C06 / C19 group). Everything below is NEW: nothing above was changed.
# RICH SESSIONS: one writer / appender session in which (1) every chunk is a SELECTION of a source cloud made in every way the API offers
# (slice, stepped / negative slice, boolean mask as ndarray or python list, index ndarray, python list, tuple, python int, the whole record)
# from every record class (PackedPointRecord, ScaleAwarePointRecord with the file's or another scaling, LasData.points[..], LasData[..].points);
# (2) the source's PointFormat OBJECT is mutated in place between two chunks (LasData.add_extra_dim / remove_extra_dim,
# PointFormat.add_extra_dimension) and the source is used again; (3) OTHER files carrying the same kinds of known VLRs are read / written /
# appended to / built WHILE the session is open (class-level and module-level state); (4) the open writer's / appender's OWN header is edited
# between chunks (VLR appended / removed / grown, extra header bytes, strings, an extra dimension); (5) the session ends in every way: close,
# close twice, with-exit, close inside the with-block, close then `with`, close then more chunks then close - with closefd False and True.
# What a chunk must be stored as is computed by numpy on a private copy of the source array taken before the call (no laspy code).
# =================================================================================
class LogKeep(LogStream3):
    """LogStream3 whose contents stay readable (getvalue) after it was closed: sessions run with closefd=True"""

    def __init__(self, initial=b""):
        super().__init__(initial)
        self._kept = None

    def close(self):
        if not self.closed:
            self._kept = io.BytesIO.getvalue(self)
        super().close()

    def getvalue(self):
        return self._kept if self.closed else super().getvalue()


KNOWN_KINDS = ["classification", "waveform", "geokeys", "geodoubles", "geoascii", "wkt-math", "wkt-cs"]


def known_vlr(rng, kind, size=None, n=None):
    """a plain VLR carrying the user id / record id of one of laspy's KNOWN record classes with a payload that class parses and
    re-serialises to the same bytes; `size`: payload length wanted (the same kind of record with other contents in another file)"""
    import laspy
    letters = [c for c in range(97, 123)]
    if kind == "classification":
        k = (size // 16) if size is not None else rng.choice([1, 2, 3, 6])
        ids = rng.sample(range(256), k) if n is None else n
        pay = b"".join(struct.pack("<B15s", i, rand_ascii(rng, rng.choice([1, 4, 9, 15]), letters).encode()) for i in ids)
        return laspy.VLR("LASF_Spec", 0, "Classification Lookup", pay)
    if kind == "waveform":
        pay = struct.pack("<BBLLdd", rng.choice([8, 16]), rng.randrange(4), rng.randrange(1, 500), rng.randrange(1, 1000), rng.choice([1.0, 0.5, 2.5]), rng.uniform(-5, 5))
        return laspy.VLR("LASF_Spec", rng.randrange(100, 356), rand_ascii(rng, 5, letters), pay)
    if kind == "geokeys":
        k = ((size - 8) // 8) if size is not None else rng.choice([1, 2, 4])
        pay = struct.pack("<4H", 1, 1, 0, k) + b"".join(struct.pack("<4H", rng.choice([1024, 2048, 3072, 4099]), rng.choice([0, 34736, 34737]), 1, rng.randrange(1, 40000)) for _ in range(k))
        return laspy.VLR("LASF_Projection", 34735, "GeoTIFF GeoKeyDirectoryTag", pay)
    if kind == "geodoubles":
        k = (size // 8) if size is not None else rng.choice([1, 3])
        return laspy.VLR("LASF_Projection", 34736, "GeoTIFF GeoDoubleParamsTag", b"".join(struct.pack("<d", rng.uniform(-1e6, 1e6)) for _ in range(k)))
    if kind == "geoascii":
        k = size if size is not None else rng.choice([1, 8, 30])
        s = rand_ascii(rng, k, letters + [124])
        return laspy.VLR("LASF_Projection", 34737, "GeoTIFF GeoAsciiParamsTag", s.encode())
    k = (size - 1) if size is not None else rng.choice([5, 20, 60])
    s = 'GEOGCS["' + rand_ascii(rng, max(k - 10, 0), letters) + '"]' if k >= 10 else rand_ascii(rng, k, letters)
    return laspy.VLR("LASF_Projection", 2111 if kind == "wkt-math" else 2112, "" if kind == "wkt-math" else "OGC Transformation Record", s.encode() + b"\0")


def known_kind_of(v):
    return {("LASF_Spec", 0): "classification", ("LASF_Projection", 34735): "geokeys", ("LASF_Projection", 34736): "geodoubles", ("LASF_Projection", 34737): "geoascii",
            ("LASF_Projection", 2111): "wkt-math", ("LASF_Projection", 2112): "wkt-cs"}.get((v.user_id, v.record_id), "waveform" if v.user_id == "LASF_Spec" and 100 <= v.record_id < 356 else None)


def known_vlrs(rng, like=None):
    """a list of plain VLRs of known kinds (1..4 kinds, each once; the classification lookup more often than not); like=<such a list>: the
    same kinds with payloads of the SAME sizes (and for a classification lookup the same class numbers) but other contents"""
    if like is not None:
        out = []
        for v in like:
            kd = known_kind_of(v)
            ids = [b for b in v.record_data[::16]] if kd == "classification" else None
            out.append(known_vlr(rng, kd, size=len(v.record_data), n=ids))
        return out
    kinds = rng.sample(KNOWN_KINDS, rng.choice([1, 2, 4]))
    if "classification" not in kinds and rng.random() < 0.6:
        kinds.append("classification")
    return [known_vlr(rng, k) for k in kinds]


RS_SELECTIONS = ["slice", "slice-step", "slice-neg", "mask", "mask-list", "ndarray", "ndarray-neg", "list", "list", "tuple", "tuple", "int", "int-neg", "empty-list", "whole", "list-dup"]
RS_SOURCES = ["packed", "scaled", "scaled", "lasdata.points", "lasdata.points", "lasdata[sel].points", "points-view", "reader.read_points", "chunk_iterator"]


def rs_selection(rng, n, kind):
    """(the python object handed to laspy's __getitem__, the numpy index giving the same records from a 1-d array) of a cloud of n >= 2 points"""
    some = sorted(rng.sample(range(n), rng.choice([1, 2, min(3, n)])))
    if kind == "slice":
        a = rng.randrange(0, n)
        b = rng.randrange(a, n + 1)
        return slice(a, b), np.arange(n)[a:b]
    if kind == "slice-step":
        s = slice(rng.choice([None, 0, 1]), None, rng.choice([2, 3, -1, -2]))
        return s, np.arange(n)[s]
    if kind == "slice-neg":
        s = slice(-rng.randrange(1, n + 1), rng.choice([None, -1]))
        return s, np.arange(n)[s]
    if kind in ("mask", "mask-list"):
        m = np.zeros(n, dtype=bool)
        m[some] = True
        return (m if kind == "mask" else [bool(x) for x in m]), np.flatnonzero(m)
    if kind == "ndarray":
        rng.shuffle(some)
        return np.array(some, dtype=rng.choice([np.int64, np.int32, np.uint8, np.intp])), np.array(some, dtype=np.int64)
    if kind == "ndarray-neg":
        ix = [i - n for i in some]
        return np.array(ix, dtype=np.int64), np.array(some, dtype=np.int64)
    if kind == "list":
        rng.shuffle(some)
        return list(some), np.array(some, dtype=np.int64)
    if kind == "list-dup":
        ix = [some[0], some[-1], some[0]]
        return ix, np.array(ix, dtype=np.int64)
    if kind == "tuple":
        return tuple(some), np.array(some, dtype=np.int64)
    if kind == "int":
        i = rng.randrange(n)
        return i, np.array([i], dtype=np.int64)
    if kind == "int-neg":
        i = rng.randrange(n)
        return i - n, np.array([i], dtype=np.int64)
    if kind == "empty-list":
        return [], np.array([], dtype=np.int64)
    return slice(None), np.arange(n)


def rs_label(ix):
    if isinstance(ix, np.ndarray):
        return f"ndarray({ix.dtype}){ix.tolist()}"
    return repr(ix)


def rs_source(rng, h, n, other_scaling):
    """a source cloud (a LasData of its OWN header: a deep copy of the file's point format, the file's or another scaling) of n points with
    small coordinates (they stay representable in the file's grid) whose return numbers sweep the range of the format"""
    import copy
    import laspy
    sh = laspy.LasHeader(point_format=copy.deepcopy(h.point_format), version=str(h.version))
    sc, of = np.array(h.scales, dtype=np.float64).copy(), np.array(h.offsets, dtype=np.float64).copy()
    if other_scaling:
        sc = sc * rng.choice([10.0, 0.5, 2.0])
        of = of + rng.choice([0.0, 1.0, -2.5])
    sh.scales, sh.offsets = sc, of
    rec0 = sweep_points(rng, h, n, start=rng.randrange(16))
    for kx in "XYZ":
        rec0.array[kx] = np.array([rng.randrange(-1000, 1001) for _ in range(n)], dtype=np.int32)
    rec0.array["X"] = (np.arange(n, dtype=np.int32) * 7 + rng.randrange(-900, 900)).astype(np.int32)   # all points distinct
    las = laspy.LasData(sh)
    las.points = laspy.ScaleAwarePointRecord(rec0.array.copy(), sh.point_format, sc.copy(), of.copy())
    return las


def rs_take(src, source, ix):
    """the chunk: a selection of the source cloud through the public API"""
    import laspy
    p = src.points
    if source == "packed":
        return laspy.PackedPointRecord(p.array, p.point_format)[ix]
    if source == "scaled":
        return laspy.ScaleAwarePointRecord(p.array, p.point_format, p.scales, p.offsets)[ix]
    if source == "lasdata.points":
        return p[ix]
    if source == "lasdata[sel].points":
        return src[ix].points
    if source in ("reader.read_points", "chunk_iterator"):
        # the cloud written to a file of its own and read back by a reader: the chunks of a reader are what programs usually append
        b = io.BytesIO()
        src.write(b)
        b.seek(0)
        with laspy.open(b, closefd=False) as rd:
            if source == "reader.read_points":
                return rd.read_points(len(p))[ix]
            for c in rd.chunk_iterator(len(p) + 1):
                return c[ix]
        return p[0:0]
    # a selection of a selection (a view of a view)
    return p[:][ix]


def rs_interfere(rng, how, twin, twin_h, h):
    """something a program does with OTHER files / objects while a session is open; must not touch the session"""
    import laspy
    from laspy.vlrs import known
    from laspy.vlrs.vlrlist import VLRList
    if how == "read":
        las = laspy.read(io.BytesIO(twin))
        return len(las.vlrs)
    if how == "open-header":
        with laspy.open(io.BytesIO(twin)) as rd:
            for _ in rd.chunk_iterator(2):
                pass
            return len(rd.header.vlrs)
    if how == "read+write":
        las = laspy.read(io.BytesIO(twin))
        out = io.BytesIO()
        las.write(out)
        return len(out.getvalue())
    if how == "append-other":
        b = io.BytesIO(twin)
        with laspy.open(b, mode="a", closefd=False) as a2:
            a2.append_points(sweep_points(rng, twin_h, 2))
        return len(b.getvalue())
    if how == "write-other":
        return len(write_las(twin_h, sweep_points(rng, twin_h, 3)))
    if how == "known-objects":
        # objects of every known record class built and filled by hand, and parsed from the other file's raw records
        lk = known.ClassificationLookupVlr()
        for i in rng.sample(range(256), 3):
            lk[i] = rand_ascii(rng, 6, [c for c in range(97, 123)])
        known.WktCoordinateSystemVlr('GEOGCS["other"]').record_data_bytes()
        ga = known.GeoAsciiParamsVlr()
        ga.parse_record_data(b"other|strings")
        gd = known.GeoDoubleParamsVlr()
        gd.parse_record_data(struct.pack("<2d", 1.5, -2.5))
        for v in twin_h.vlrs:
            known.vlr_factory(v)
        return len(lk.record_data_bytes())
    if how == "create":
        las = laspy.create(point_format=h.point_format.id, file_version=str(h.version))
        las.add_extra_dim(laspy.ExtraBytesParams("other_" + rand_ascii(rng, 3, [c for c in range(97, 123)]), rng.choice(["u2", "f4", "3u1"])))
        las.vlrs.append(rand_vlr(rng))
        las.header.scales = np.array([3.0, 3.0, 3.0])
        return len(las.vlrs)
    # a fresh header and a fresh LasData whose default attributes are modified in place
    hh = laspy.LasHeader()
    hh.vlrs.append(rand_vlr(rng))
    hh.scales[0] = 123.0
    hh.offsets[1] = -5.0
    hh.number_of_points_by_return[0] = 9
    ld = laspy.LasData(laspy.LasHeader(point_format=h.point_format.id, version=str(h.version)))
    ld.vlrs.extend(twin_h.vlrs)
    ld.evlrs = VLRList([rand_vlr(rng)])
    return 0


RS_INTERFERE = ["read", "read", "open-header", "read+write", "append-other", "write-other", "known-objects", "create", "defaults"]
RS_EDITS = ["vlr+records", "vlr+records", "vlr+", "vlr-pop", "vlr-grow", "known-edit", "extra_header_bytes", "extra_vlr_bytes", "string", "add_extra_dim"]
RS_ENDS = [["C"], ["C"], ["C", "C"], ["W"], ["WC"], ["WC"], ["C", "W"], ["C", "P", "C"], ["C", "P", "C"], ["WC", "C"], ["C", "C", "P", "W"]]


def rs_edit_header(rng, hd, how, ps):
    """an edit of the OPEN writer's / appender's own header; returns a short description (None: not applicable)"""
    import laspy
    if how == "vlr+records":
        k = rng.choice([1, 1, 2])
        pay = ((-54) % ps or ps) + (k - 1) * ps
        if pay > 65000:
            return None
        hd.vlrs.append(laspy.VLR("late", 2, "added while open", bytes(rng.randrange(256) for _ in range(pay))))
        return f"VLR of 54+{pay} bytes (= {(54 + pay) // ps} records) appended to .header.vlrs"
    if how == "vlr+":
        v = rand_vlr(rng, 80)
        hd.vlrs.append(v)
        return f"VLR of 54+{len(v.record_data)} bytes appended to .header.vlrs"
    if how == "vlr-pop":
        if not len(hd.vlrs):
            return None
        hd.vlrs.pop()
        return "last VLR removed from .header.vlrs"
    if how == "vlr-grow":
        plain = [v for v in hd.vlrs if type(v).__name__ == "VLR"]
        if not plain:
            return None
        v = rng.choice(plain)
        k = rng.choice([1, ps, 2 * ps])
        v.record_data = bytes(v.record_data) + bytes(k)
        return f"payload of a VLR of .header.vlrs grown by {k} bytes"
    if how == "known-edit":
        lk = [v for v in hd.vlrs if type(v).__name__ == "ClassificationLookupVlr"]
        if not lk:
            return None
        free = [i for i in range(256) if i not in lk[0].lookups]
        lk[0][rng.choice(free)] = "added"
        return "one class added to the classification lookup of .header.vlrs (16 bytes more)"
    if how == "extra_header_bytes":
        hd.extra_header_bytes = bytes(len(hd.extra_header_bytes) + rng.choice([1, ps, 3]))
        return f".header.extra_header_bytes set to {len(hd.extra_header_bytes)} bytes"
    if how == "extra_vlr_bytes":
        hd.extra_vlr_bytes = bytes(len(hd.extra_vlr_bytes) + rng.choice([1, ps, 5]))
        return f".header.extra_vlr_bytes set to {len(hd.extra_vlr_bytes)} bytes"
    if how == "string":
        hd.generating_software = rand_ascii(rng, rng.choice([0, 7, 32]))
        return ".header.generating_software changed (same field width)"
    hd.add_extra_dim(laspy.ExtraBytesParams("late_" + rand_ascii(rng, 2, [c for c in range(97, 123)]), rng.choice(["u1", "u2", "f8"])))
    return "an extra dimension added to .header (point size and extra-bytes VLR change)"


def rs_session(rng, kind, thorough=False, rescale=True, edits=True, ends=None, version=None):
    """generates AND runs one rich session of a writer (kind 'writer') or an appender ('appender') on laspy. Returns a dict:
    desc (JSON-able: enough to read what was done), base (the file before: b'' for a writer), ops (every low-level write / truncate in
    order), final (the destination afterwards), ps, accepted (list of private records the session accepted, with the scaling they were given
    in), accepted_bytes (what the accepted chunks must be stored as; None when a chunk had to be rescaled), orig (the original's records),
    outs (per chunk: dict label, n, outcome, expected, file_unchanged, rec_unchanged), closes (outcomes of the closing calls), edited,
    after_close (a chunk was accepted after a close), nclose, header (the header the file was created from), evl, problems (what the generator
    itself saw go wrong: selections refused, interference raising ...)."""
    import copy
    import laspy
    from laspy.lasappender import LasAppender
    from laspy.vlrs.vlrlist import VLRList
    ver = version or rng.choice([None, None, "1.4", "1.4", "1.2"])
    h = rand_header(rng, version=ver, nvlrs=rng.choice([0, 1, 2]))
    if rng.random() < 0.25:
        add_extra_dims(rng, h, rng.choice([1, 2]))
    kv = []
    if rng.random() < 0.55:
        kv = known_vlrs(rng)
        for v in kv:
            h.vlrs.insert(rng.randrange(len(h.vlrs) + 1), v)
    ps = h.point_format.size
    fmt0 = copy.deepcopy(h.point_format)
    minor = h.version.minor
    evl = None
    if minor >= 4 and rng.random() < 0.6:
        evl = VLRList([rand_vlr(rng, 90) for _ in range(rng.choice([1, 2]))])
        if rng.random() < 0.3:
            # an EVLR of 60 + payload = a whole number of records (bytes that decode as records if they are ever taken for points)
            evl.append(laspy.VLR("whole", 9, "k records long", bytes(rng.randrange(1, 256) for _ in range((-60) % ps or ps))))
        if rng.random() < 0.25:
            evl.append(known_vlr(rng, rng.choice(KNOWN_KINDS)))      # a known record placed as EVLR
    closefd = rng.random() < 0.3
    via = rng.choice(["class", "open"])
    twin_h = rand_header(rng, version=str(h.version), fmt=h.point_format.id, nvlrs=rng.choice([0, 1]))
    for v in (known_vlrs(rng, like=kv) if kv and rng.random() < 0.7 else known_vlrs(rng)):
        twin_h.vlrs.append(v)
    twin = write_las(twin_h, sweep_points(rng, twin_h, 3), VLRList([known_vlr(rng, "classification")]) if minor >= 4 else None)
    desc = dict(describe_header(h), kind=kind, known_vlrs=[known_kind_of(v) for v in kv], evlrs=[len(v.record_data) for v in (evl or [])], closefd=closefd, via=via, ops=[])
    problems = []
    orig = b""
    if kind == "writer":
        st = LogKeep()
        obj = open_writer(st, h, via, {"closefd": closefd})
        put = obj.write_points
        base = b""
    else:
        A = sweep_points(rng, h, rng.choice([0, 1, 3, 8]))
        orig = rec_bytes(A)
        base = write_las(h, A, evl)
        if evl and rng.random() < 0.3:
            gp = rng.choice([1, ps, 2 * ps + 3])
            base = with_gap(base, gp) or base
            desc["gap"] = gp
        desc["orig_points"] = len(A)
        st = LogKeep(base)
        st.seek(0)
        try:
            obj = laspy.open(st, mode="a", closefd=closefd) if via == "open" else LasAppender(st, closefd=closefd)
        except Exception as ex:
            # a file laspy wrote itself (VLRs of known kinds with payloads that re-serialise to the same bytes) refused by the appender
            return {"error": f"the appender cannot be opened on a file laspy wrote: {type(ex).__name__}: {ex}", "desc": dict(desc, file_hex=base.hex()[:6000])}
        if st.ops:
            problems.append(f"opening the appender wrote to the file: {[(o[0], o[1]) for o in st.ops[:3]]}")
        st.ops.clear()
        st.trace.clear()
        put = obj.append_points
    n_open_ops = len(st.ops)
    srcs = [rs_source(rng, h, rng.choice([5, 9, 14]), False)]
    if rescale:
        srcs.append(rs_source(rng, h, rng.choice([5, 9]), True))
    added = {id(s): [] for s in srcs}
    accepted, acc_bytes, outs, closes, calls = [], b"", [], [], []
    state = {"edited": False, "closed": 0, "after_close": False, "rescaled": False}

    def do_chunk():
        nonlocal acc_bytes
        src = rng.choice(srcs)
        other = src is not srcs[0]
        source = rng.choice(RS_SOURCES)
        sk = rng.choice(RS_SELECTIONS)
        snap = src.points.array.copy()
        ix, npix = rs_selection(rng, len(snap), sk)
        label = f"{source}[{rs_label(ix)}]" + (" (other scaling)" if other and source != "packed" else "") + (" (format object changed since)" if added[id(src)] else "")
        try:
            rec = rs_take(src, source, ix)
        except Exception as ex:
            # a selection the API refuses (a tuple on a plain record is a multi-dimensional index for numpy) is no chunk
            desc["ops"].append(f"P {label} select!{type(ex).__name__}")
            return
        want = np.ascontiguousarray(snap[npix])
        pf_now = src.points.point_format
        same_fmt = format_key(pf_now) == format_key(obj.header.point_format) and snap.dtype.itemsize == obj.header.point_format.size
        scaled = source != "packed"
        need_rescale = scaled and other
        before_file = st.getvalue()
        sel_ok = len(rec) == len(want) and rec_bytes(rec) == want.tobytes()
        if not sel_ok:
            problems.append(f"a selection of a record is not the selected records: {label} of a cloud of {len(snap)} points: the record laspy returns ({len(rec)} points) "
                            f"does not hold the {len(want)} records numpy selects from the same array")
        before_rec = rec_bytes(rec)
        st_scales = (tuple(map(float, getattr(rec, "scales", []))), tuple(map(float, getattr(rec, "offsets", []))))
        try:
            put(rec)
            o = "ok"
        except Exception as ex:
            o = "err:" + common.exc_kind(ex)
        unchanged = st.getvalue() == before_file
        rec_same = rec_bytes(rec) == before_rec and st_scales == (tuple(map(float, getattr(rec, "scales", []))), tuple(map(float, getattr(rec, "offsets", []))))
        if state["closed"]:
            expected = "any"        # accepted (then it must be stored) or refused (then nothing may change)
        elif len(want) == 0:
            expected = "ok"
        elif not same_fmt:
            expected = "err:ELaspy"
        else:
            expected = "ok|overflow" if need_rescale else "ok"
        outs.append({"label": label, "n": len(want), "outcome": o, "expected": expected, "file_unchanged": unchanged, "rec_unchanged": rec_same, "after_close": bool(state["closed"]),
                     "zero_d": len(getattr(rec.array, "shape", (1,))) == 0, "need_rescale": need_rescale, "foreign": not same_fmt, "bytes": want.tobytes()})
        calls.append(len(outs) - 1)
        desc["ops"].append(f"P {label} -> {o}")
        if o == "ok" and len(want):
            if same_fmt:
                if scaled:
                    accepted.append(laspy.ScaleAwarePointRecord(want.copy(), copy.deepcopy(fmt0) if format_key(pf_now) == format_key(fmt0) else copy.deepcopy(pf_now),
                                                                np.array(src.points.scales, dtype=np.float64).copy(), np.array(src.points.offsets, dtype=np.float64).copy()))
                else:
                    accepted.append(laspy.PackedPointRecord(want.copy(), copy.deepcopy(fmt0) if format_key(pf_now) == format_key(fmt0) else copy.deepcopy(pf_now)))
                if need_rescale:
                    state["rescaled"] = True
                acc_bytes += want.tobytes()
            else:
                accepted.append(None)       # a foreign chunk was accepted: reported through outs
            if state["closed"]:
                state["after_close"] = True

    def do_mutate():
        src = rng.choice(srcs)
        how = rng.choice(["lasdata.add_extra_dim", "lasdata.add_extra_dim", "format.add_extra_dimension", "lasdata.remove_extra_dim", "lasdata.remove_extra_dim"])
        try:
            if how == "lasdata.add_extra_dim":
                nm = "m" + rand_ascii(rng, 4, [c for c in range(97, 123)])
                src.add_extra_dim(laspy.ExtraBytesParams(nm, rng.choice(["u2", "u1", "f4", "2i2"])))
                added[id(src)].append(nm)
            elif how == "format.add_extra_dimension":
                nm = "s" + rand_ascii(rng, 4, [c for c in range(97, 123)])
                src.points.point_format.add_extra_dimension(laspy.ExtraBytesParams(nm, rng.choice(["u2", "u4"])))
                added[id(src)].append(nm)
            else:
                if not added[id(src)]:
                    return
                nm = added[id(src)][-1]
                src.remove_extra_dim(nm)
                added[id(src)].pop()
            desc["ops"].append(f"M {how}({nm}) on source {srcs.index(src)}")
        except Exception as ex:
            desc["ops"].append(f"M {how} !{type(ex).__name__}")
            if how.endswith("remove_extra_dim") and nm.startswith("s"):
                # the dimension exists in the format only (the record was never rebuilt): drop it from the format as it was added
                try:
                    src.points.point_format.remove_extra_dimension(nm)
                    added[id(src)].pop()
                except Exception:
                    pass

    def do_interfere():
        how = rng.choice(RS_INTERFERE)
        desc["ops"].append(f"I {how}")
        before = st.getvalue()
        try:
            rs_interfere(rng, how, twin, twin_h, h)
        except Exception as ex:
            problems.append(f"working on ANOTHER file while the session is open raised: {how}: {type(ex).__name__}: {ex}")
        if st.getvalue() != before:
            problems.append(f"working on ANOTHER file while the session is open changed its destination: {how}")

    def do_edit():
        how = rng.choice(RS_EDITS)
        # an extra dimension added to the session's own header redefines what a record is; the size guard of the rewrite refuses it unless another
        # edit happens to compensate the growth of the block byte for byte (a coincidence the generator does not look for): it is the only edit of its session
        if state.get("fmt_edited") or (how == "add_extra_dim" and state["edited"]):
            return
        if how == "add_extra_dim":
            state["fmt_edited"] = True
        try:
            what = rs_edit_header(rng, obj.header, how, ps)
        except Exception as ex:
            what = None
            desc["ops"].append(f"H {how} !{type(ex).__name__}")
        if what:
            state["edited"] = True
            desc["ops"].append("H " + what)

    def snap_before():
        # the first close: the destination before it and what the session's own header serialises to at that moment (on a deep copy)
        if state["closed"] or "close0" in state:
            return
        hb = None
        try:
            tmp = io.BytesIO()
            copy.deepcopy(obj.header).write_to(tmp)
            hb = tmp.getvalue()
        except Exception:
            pass
        state["close0"] = {"before": st.getvalue(), "hb": hb, "off": int.from_bytes(st.getvalue()[96:100], "little")}    # the offset the file on disk announces

    def snap_after(o):
        if "close0" in state and "after" not in state["close0"]:
            state["close0"].update(after=st.getvalue(), outcome=o)

    def do_close(tag):
        inner = []
        snap_before()
        try:
            if tag == "C":
                obj.close()
            elif tag == "W":
                with obj:
                    pass
            else:
                with obj:
                    try:
                        obj.close()
                        inner.append("ok")
                    except Exception as ex:
                        inner.append("err:" + common.exc_kind(ex))
                    snap_after(inner[0])
            o = "ok"
        except Exception as ex:
            o = "err:" + common.exc_kind(ex)
        snap_after(o)
        closes.extend(inner + [o])
        calls.extend(["C"] * (2 if tag == "WC" else 1))
        state["closed"] += 2 if tag == "WC" else 1
        desc["ops"].append(f"{tag} -> {'/'.join(inner + [o])}")

    for _ in range(rng.randrange(1, 7 if not thorough else 11)):
        r = rng.random()
        if r < 0.52:
            do_chunk()
        elif r < 0.66:
            do_mutate()
        elif r < 0.82:
            do_interfere()
        elif edits and r < 0.92:
            do_edit()
        else:
            do_chunk()
    if kind == "writer" and evl is not None and rng.random() < 0.8:
        try:
            obj.write_evlrs(evl)
            desc["ops"].append(f"E{len(evl)}")
            calls.append("E")
        except Exception as ex:
            desc["ops"].append(f"E{len(evl)} !{type(ex).__name__}")
            problems.append(f"write_evlrs raised {type(ex).__name__}: {ex}")
    else:
        if kind == "writer":
            evl = None
    for tag in (ends or rng.choice(RS_ENDS)):
        if tag == "P":
            do_chunk()
            if rng.random() < 0.4:
                do_chunk()
        else:
            do_close(tag)
    return {"desc": desc, "kind": kind, "base": base, "ops": list(st.ops[n_open_ops:]), "final": st.getvalue(), "ps": ps, "accepted": accepted, "orig": orig,
            "accepted_bytes": orig + acc_bytes, "rescaled": state["rescaled"], "outs": outs, "closes": closes, "edited": state["edited"],
            "after_close": state["after_close"], "nclose": state["closed"], "header": h, "evl": evl, "problems": problems, "twin": twin,
            "calls": calls, "close0": state.get("close0")}


def rs_tag(s):
    """the prefix of the kinds of failing inputs of a rich session: how the session ended decides which class of history it is"""
    who = "appender" if s["kind"] == "appender" else "writer"
    if s["after_close"]:
        return f"{who} used after close: "
    if s["nclose"] > 1:
        return f"{who} closed twice: "
    if s["edited"]:
        return f"{who} whose own header was edited while open: "
    return f"{who} session (selections / other files meanwhile): "


def rs_outcome_problems(s):
    """the rules every chunk call of a rich session must obey, whatever the property: [(short kind, explanation)]"""
    out = []
    for p in s["problems"]:
        out.append((p.split(":")[0][:90], p))
    for o in s["outs"]:
        if o["outcome"] != "ok" and not o["file_unchanged"]:
            out.append(("a refused chunk left a trace in the file", f"{o['label']}: {o['outcome']} but the destination changed"))
        if not o["rec_unchanged"]:
            out.append(("the caller's record was modified", f"{o['label']}: {o['outcome']}; the record handed over is not what it was (bytes / scales / offsets)"))
        e = o["expected"]
        if e == "any" and o.get("foreign") and o["n"] and o["outcome"] == "ok":
            out.append(("a chunk of another point format was not refused", f"{o['label']} ({o['n']} points): {o['outcome']}"))
        elif e == "err:ELaspy" and o["outcome"] != e:
            out.append(("a chunk of another point format was not refused", f"{o['label']} ({o['n']} points): {o['outcome']}"))
        elif e == "ok" and o["outcome"] != "ok":
            out.append(("a chunk of the file's format was refused", f"{o['label']} ({o['n']} points): {o['outcome']}"))
        elif e == "ok|overflow" and o["outcome"] not in ("ok", "err:EOverflow"):
            out.append(("a chunk of the file's format was refused", f"{o['label']} ({o['n']} points{', a 0-d record' if o.get('zero_d') else ''}): {o['outcome']}"))
    return out


def rs_world_problems(s):
    """real-world coordinates: every accepted scale-aware chunk, whatever its scaling, must be stored within half a grid step of the file
    (plus float rounding) of x = X * scale + offset of the SOURCE. Judged on the bytes of the final file. Returns a list of strings."""
    try:
        d = parse_raw(s["final"])
        recs = raw_records(s["final"])
    except ValueError as ex:
        return []
    ps = d["psize"]
    if ps != s["ps"] or any(a is None for a in s["accepted"]):
        return []
    pos = len(s["orig"]) // ps
    fs, fo = d["scales"], d["offsets"]
    out = []
    for a in s["accepted"]:
        n = len(a.array)
        if (pos + n) * ps > len(recs):
            break
        got = np.frombuffer(recs[pos * ps:(pos + n) * ps], dtype=a.array.dtype)
        sc = getattr(a, "scales", None)
        for j, kx in enumerate("XYZ"):
            if sc is None:
                if not np.array_equal(got[kx], a.array[kx]):
                    out.append(f"{kx} of a plain record stored as {got[kx][:3].tolist()} instead of {a.array[kx][:3].tolist()}")
                continue
            want = a.array[kx].astype(np.float64) * float(a.scales[j]) + float(a.offsets[j])
            have = got[kx].astype(np.float64) * float(fs[j]) + float(fo[j])
            tol = 0.5 * abs(float(fs[j])) * (1 + 1e-9) + 8 * np.spacing(np.maximum(np.maximum(np.abs(want), np.abs(have)), max(abs(float(fo[j])), abs(float(a.offsets[j])), 1e-300)))
            bad = np.flatnonzero(np.abs(want - have) > tol)
            if len(bad):
                i = int(bad[0])
                out.append(f"{kx.lower()} of point {pos + i} is {have[i]!r} in the file, the appended record said {want[i]!r} (file scale {fs[j]}, record scale {float(a.scales[j])})")
                break
        pos += n
    return out


def rs_aops_cmd(s):
    """the c06 driver's command for the CALLS of a rich append session, closes included (arun_ops of Model/LasEnd.v with aclose_t): None when the
    session is outside the model (a chunk had to be rescaled, the appender's own header was edited, the file is large)"""
    if "error" in s or s["kind"] != "appender" or s["edited"] or s["rescaled"] or len(s["base"]) > 60000 or "C" not in s["calls"]:
        return None
    toks = []
    for c in s["calls"]:
        if c == "C":
            toks.append("C")
        else:
            o = s["outs"][c]
            if o["n"] and (o["foreign"] or o["outcome"] != "ok"):
                # refused (another format; not representable in the file's grid; the appender is closed): whether the refusal is right is
                # judged by the outcome rules, here it is a call that leaves no trace
                toks.append("F" + common.hexb(bytes(o["n"] * s["ps"])))
            else:
                toks.append("T" + common.hexb(o["bytes"]))
    return f"aops {common.hexb(s['base'])} {s['ps']} " + " ".join(toks)


def rs_grw_cmd(s):
    """the c06 driver's command for the header rewrite of the FIRST close of a rich session (guarded_rewrite of Model/LasEnd.v): the size of the
    block first put on disk, what the session's own header serialises to when it is closed, the destination before the close"""
    c0 = s.get("close0") if "error" not in s else None
    if not c0 or c0.get("hb") is None or "after" not in c0 or len(c0["before"]) > 60000:
        return None
    return f"grw {c0['off']} {common.hexb(c0['hb'])} {common.hexb(c0['before'])}"


def rs_grw_problem(s, mo):
    """compares the model's answer with what the first close of the session did: the decision (refused with LaspyException leaving the
    destination alone / accepted) and, accepted, every byte from the first point on and the length (a writer; an appender re-emits its EVLRs there)"""
    c0 = s["close0"]
    off = c0["off"]
    if mo.startswith("err"):
        if c0["outcome"] == "ok":
            return f"the header block now takes {len(c0['hb'])} bytes, {off} were put on disk when the session was opened: the model refuses the rewrite, close() returned normally"
        if c0["after"][off:] != c0["before"][off:] and s["kind"] == "writer":
            return "close() refused the rewrite but the bytes behind the header changed"
        return None
    if c0["outcome"] != "ok":
        # close may fail for another reason than the size of the block (a closed destination ...): only a size refusal is compared
        return f"the header block still takes {off} bytes: the model rewrites it in place, close() raised {c0['outcome']}" if c0["outcome"] == "err:ELaspy" else None
    if s["kind"] == "writer":
        want = common.unhex(mo.split(" ")[1])
        if want[off:] != c0["after"][off:] or len(want) != len(c0["after"]):
            return f"after the rewrite the bytes from the first point on (offset {off}) / the length differ from the model's ({len(c0['after'])} vs {len(want)} bytes)"
    return None


def rs_wrun_cmd(s):
    """the main driver's wrun command (Model/Las.v writer: chunks, EVLRs, closes in the order they were called - chunks after a close are refused
    there, a second close rewrites the same header) for a rich WRITER session; None when the session is outside the model (a chunk had to be
    rescaled, the writer's own header was edited)"""
    if "error" in s or s["kind"] != "writer" or s["edited"] or any(o["need_rescale"] and o["n"] for o in s["outs"]) or "C" not in s["calls"]:
        return None
    h = s["header"]
    toks = []
    for c in s["calls"]:
        if c == "C":
            toks.append("C")
        elif c == "E":
            toks.append("E" + vlrs_tok(s["evl"]))
        else:
            o = s["outs"][c]
            toks.append("P" + ("F" + common.hexb(bytes(o["n"] * s["ps"])) if o["foreign"] and o["n"] else "T" + common.hexb(o["bytes"])))
    return f"wrun {assoc_tok(header_assoc(h))} {vlrs_tok(h.vlrs)} {h.point_format.id} {s['ps']} " + " ".join(toks)


def rs_wrun_problem(s, mo):
    """model vs implementation on a rich writer session: the outcome of every chunk call (accepted / refused) and the bytes of the file"""
    t = mo.split(" ")
    if len(t) != 2:
        return f"the model could not run the session: {mo[:80]}"
    m_outs = t[0].split(",")
    i_outs = []
    k = 0
    for c in s["calls"]:
        if c in ("C", "E"):
            k += 1
            continue
        o = s["outs"][c]
        mo_k = m_outs[k] if k < len(m_outs) else "?"
        k += 1
        if (o["outcome"] == "ok") != (mo_k == "ok"):
            return f"chunk {o['label']} ({o['n']} points{', after close' if o['after_close'] else ''}): laspy {o['outcome']}, model {mo_k}"
    if common.unhex(t[1]) != s["final"]:
        return f"the file ({len(s['final'])} bytes) is not the model's ({len(common.unhex(t[1]))} bytes)"
    return None
